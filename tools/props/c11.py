"""C11 — equality and ordering are coherent and construction-independent."""
import itertools, random, struct
from lv import C, R, S, P, val_ir

PROP = "C11"
TARGETS = ["props/C11.vo", "corr/C11corr.vo"]
HEADER = "From LV Require Import Corr C11corr.\n"
CHECKER = "c11_check"
TRUSTED = [
    "model/Value.v transcribes value/view.rs (value_eq, value_cmp), scalar/mod.rs (scalar_eq, scalar_cmp), values.rs, state.rs",
    "floats are SpecFloat data compared with SFcompare; `i64 as f64` is binary_normalize (round to nearest even); date-times compare by instant",
    "HashMap iteration order is arbitrary: the harness rebuilds every operand 16 times so different orders are actually exercised",
]
RULE = ("all ordered pairs of the value pool (each operand rebuilt 16 times from scratch), answers of ==, !=, partial_cmp, <, <=, >, >= through "
        "Value, ValueViewCmp, ValueCow and to_value; a pair is non-trivial when the two operands are different pool entries and at least one of == / partial_cmp is not the default (false/None)")


def fbits(x):
    return str(struct.unpack("<Q", struct.pack("<d", x))[0])


def I(n):
    return ["i", str(n)]


def F(x):
    return ["f", fbits(x)]


def St(s):
    return ["s", s]


def O(*kv):
    return ["o", [[k, v] for k, v in kv]]


def A(*xs):
    return ["a", list(xs)]


def DT(text, y, mo, d, h, mi, s, ns, off):
    return ["dt", text, y, mo, d, h, mi, s, ns, off]


SIX = O(("a", I(1)), ("b", I(2)), ("c", St("x")), ("d", ["n"]), ("e", F(1.5)), ("f", ["b", True]))
SIX2 = O(("f", ["b", True]), ("e", F(1.5)), ("d", ["n"]), ("c", St("x")), ("b", I(2)), ("a", I(1)))   # same, built in another order
SIX3 = O(("a", I(1)), ("b", I(3)), ("c", St("x")), ("d", ["n"]), ("e", F(1.5)), ("f", ["b", True]))

POOL = [
    ["n"], ["b", True], ["b", False],
    I(0), I(1), I(-1), I(2), I(2 ** 53), I(2 ** 53 + 1), I(2 ** 63 - 1), I(-2 ** 63),
    F(0.0), F(-0.0), F(0.5), F(1.0), F(-1.0), F(2.0), F(2.0 ** 53), F(float("inf")), F(float("-inf")), F(float("nan")), F(9.223372036854775807e18),
    St(""), St(" "), St("\t\n"), St("\u00a0\u2003"), St("\u200b"), St("1"), St("1.0"), St("true"), St("a"), St("A"), St("ab"), St("b"), St("é"),
    ["d", "2020-01-02", 2020, 1, 2], ["d", "2020-01-03", 2020, 1, 3],
    DT("2020-01-02 03:04:05 +0000", 2020, 1, 2, 3, 4, 5, 0, 0),
    DT("2020-01-02 04:04:05 +0100", 2020, 1, 2, 4, 4, 5, 0, 3600),
    DT("2020-01-01 21:34:05 -0530", 2020, 1, 1, 21, 34, 5, 0, -19800),
    DT("2020-01-02 03:04:06 +0000", 2020, 1, 2, 3, 4, 6, 0, 0),
    DT("2020-01-02 03:04:05.005 +0000", 2020, 1, 2, 3, 4, 5, 5000000, 0),
    ["st", "Empty"], ["st", "Blank"], ["st", "DefaultValue"],
    A(), A(I(1)), A(I(1), I(2)), A(I(2), I(1)), A(F(1.0)), A(["n"]), A(St("a")), A(["b", True]), A(A(I(1))), A(A(I(1), I(2)), A(I(3))), A(O(("a", I(1)))),
    O(), O(("a", I(1))), O(("a", F(1.0))), O(("a", I(2))), O(("b", I(1))), O(("a", I(1)), ("b", I(2))), O(("b", I(2)), ("a", I(1))),
    O(("a", I(1)), ("b", I(3))), O(("a", ["n"])), O(("a", ["n"]), ("b", I(1))), O(("b", I(1)), ("c", I(2))), O(("b", I(1)), ("c", ["n"])), SIX, SIX2, SIX3,
    O(("a", O(("b", I(1)), ("c", I(2)))), ("z", A(I(1)))), O(("z", A(I(1))), ("a", O(("c", I(2)), ("b", I(1))))),
    O(("a", A(I(1), I(2)))),
    ["st", "Truthy"],   # outside the property's quantifier (never produced by templates): correspondence only
]
OUTSIDE = {len(POOL) - 1}
NAN = {i for i, v in enumerate(POOL) if v[0] == "f" and v[1] == fbits(float("nan"))}


def has_nan(v):
    if v[0] == "f":
        return v[1] == fbits(float("nan"))
    if v[0] == "a":
        return any(has_nan(x) for x in v[1])
    if v[0] == "o":
        return any(has_nan(x) for _, x in v[1])
    return False


def gen(tier, seed):
    cases = []
    n = len(POOL)
    for i in range(n):
        for j in range(n):
            cases.append({"i": i, "j": j, "a": POOL[i], "b": POOL[j]})
    # random nested values built from the pool (depth 2) — thorough only adds more
    rnd = random.Random(seed)
    extra = 300 if tier == "quick" else 6000
    for _ in range(extra):
        def mk(d):
            r = rnd.random()
            if d == 0 or r < 0.4:
                return rnd.choice(POOL[:-1])
            if r < 0.7:
                return A(*[mk(d - 1) for _ in range(rnd.randint(0, 3))])
            keys = rnd.sample(["a", "b", "c", "d"], rnd.randint(0, 4))
            return O(*[(k, mk(d - 1)) for k in keys])
        a = mk(2)
        b = a if rnd.random() < 0.3 else mk(2)
        if rnd.random() < 0.3 and b[0] == "o":
            ents = list(b[1]); rnd.shuffle(ents); b = ["o", ents]
        cases.append({"i": None, "j": None, "a": a, "b": b})
    for k, c in enumerate(cases):
        c["id"] = k
    return cases, {"pool": n, "ordered_pairs": n * n, "random_nested_pairs": extra, "exhaustive": True}


def request(c):
    return {"id": c["id"], "kind": "cmp", "a": c["a"], "b": c["b"], "reps": 16}


CMP = {"none": "CNone", "lt": "CLt", "eq": "CEq", "gt": "CGt"}


def case_ir(c, resp):
    a = resp["answers"][0]
    return R("mkC11", val_ir(c["a"]), val_ir(c["b"]), a["eq"], a["ne"], C(CMP[a["cmp"]]), a["lt"], a["le"], a["gt"], a["ge"])


def spec_check(c, resp):
    if "panic" in resp:
        return {"what": "panic while comparing", "input": c, "observed": resp["panic"]}
    if len(resp["answers"]) != 1:
        return {"what": "the outcome of a comparison depends on how the operands were built (hash order)", "input": {"a": c["a"], "b": c["b"]},
                "observed": resp["answers"], "expected": "one answer"}
    if resp["api_disagree"]:
        return {"what": "Value / ValueViewCmp / ValueCow / to_value disagree", "input": {"a": c["a"], "b": c["b"]}, "observed": resp["api_disagree"]}
    a = resp["answers"][0]
    if a["ne"] != (not a["eq"]):
        return {"what": "!= is not the negation of ==", "input": {"a": c["a"], "b": c["b"]}, "observed": a}
    ordered = a["cmp"] != "none"
    if ordered and (a["le"] != (a["lt"] or a["eq"]) or a["ge"] != (a["gt"] or a["eq"])):
        if c["i"] not in OUTSIDE and c["j"] not in OUTSIDE:
            return {"what": "<=/>= do not agree with (< or > or ==) on ordered values", "input": {"a": c["a"], "b": c["b"]}, "observed": a}
    if a["eq"] and a["cmp"] in ("lt", "gt") and c["i"] not in OUTSIDE and c["j"] not in OUTSIDE:
        return {"what": "equal values are strictly ordered", "input": {"a": c["a"], "b": c["b"]}, "observed": a}
    if a["lt"] != (a["cmp"] == "lt") or a["gt"] != (a["cmp"] == "gt"):
        return {"what": "< / > disagree with partial_cmp", "input": {"a": c["a"], "b": c["b"]}, "observed": a}
    return None


def spec_global(cases, resps):
    """laws that relate two calls: symmetry, duality, reflexivity, int/float equality"""
    out = []
    table = {}
    for c in cases:
        r = resps.get(c["id"])
        if r and "answers" in r and len(r["answers"]) == 1 and c["i"] is not None:
            table[(c["i"], c["j"])] = r["answers"][0]
    dual = {"lt": "gt", "gt": "lt", "eq": "eq", "none": "none"}
    n = len(POOL)
    for i in range(n):
        for j in range(n):
            if (i, j) not in table or (j, i) not in table or i in OUTSIDE or j in OUTSIDE:
                continue
            x, y = table[(i, j)], table[(j, i)]
            if x["eq"] != y["eq"]:
                out.append({"what": "== is not symmetric", "input": {"a": POOL[i], "b": POOL[j]}, "observed": [x, y]})
            if dual[x["cmp"]] != y["cmp"]:
                out.append({"what": "< and > are not duals", "input": {"a": POOL[i], "b": POOL[j]}, "observed": [x, y]})
        if (i, i) in table and i not in OUTSIDE and not has_nan(POOL[i]) and not table[(i, i)]["eq"]:
            out.append({"what": "== is not reflexive", "input": {"a": POOL[i]}, "observed": table[(i, i)]})
    # integer vs float denoting the same number (|x| <= 2^53)
    for i, v in enumerate(POOL):
        if v[0] == "i" and abs(int(v[1])) <= 2 ** 53:
            for j, w in enumerate(POOL):
                if w[0] == "f" and w[1] == fbits(float(int(v[1]))) and (i, j) in table:
                    t = table[(i, j)]
                    if not t["eq"] or t["cmp"] != "eq":
                        out.append({"what": "an integer and the float denoting the same number are not equal", "input": {"a": v, "b": w}, "observed": t})
    return out


def nontrivial(c, resp):
    a = (resp.get("answers") or [{}])[0]
    return c["a"] != c["b"] and (a.get("eq") or a.get("cmp") != "none")
