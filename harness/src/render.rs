//! "render": parse a template with a given parser configuration and render it on data.
//! A custom filter `lv_dump` prints the structural JSON of its input so that filter results
//! are observed as values, not only as text.
use crate::val;
use liquid_core::{Display_filter, Filter, FilterReflection, ParseFilter};
use liquid_core::{Result, Runtime, Value, ValueView};
use serde_json::{json, Value as J};
use std::io::Write;

#[derive(Clone, ParseFilter, FilterReflection)]
#[filter(name = "lv_dump", description = "structural dump (verification harness)", parsed(LvDumpFilter))]
pub struct LvDump;

#[derive(Debug, Default, Display_filter)]
#[name = "lv_dump"]
struct LvDumpFilter;

impl Filter for LvDumpFilter {
    fn evaluate(&self, input: &dyn ValueView, _runtime: &dyn Runtime) -> Result<Value> {
        Ok(Value::scalar(val::view_to_json(input).to_string()))
    }
}

pub fn builder(config: &str) -> liquid::ParserBuilder {
    use liquid_lib::{extra, jekyll, shopify};
    let b = match config {
        "empty" => liquid::ParserBuilder::new(),
        "all" => liquid::ParserBuilder::with_stdlib()
            .filter(jekyll::Slugify)
            .filter(jekyll::Pop)
            .filter(jekyll::Push)
            .filter(jekyll::Shift)
            .filter(jekyll::Unshift)
            .filter(jekyll::ArrayToSentenceString)
            .filter(jekyll::Sort)
            .filter(shopify::Pluralize)
            .filter(extra::DateInTz),
        _ => liquid::ParserBuilder::with_stdlib(),
    };
    b.filter(LvDump)
}

pub fn partials_of(req: &J) -> Option<liquid::partials::InMemorySource> {
    let ps = req.get("partials")?.as_array()?;
    let mut src = liquid::partials::InMemorySource::new();
    for p in ps {
        let p = p.as_array().unwrap();
        src.add(p[0].as_str().unwrap().to_owned(), p[1].as_str().unwrap().to_owned());
    }
    Some(src)
}

pub fn build_parser(req: &J) -> std::result::Result<liquid::Parser, String> {
    let config = req["config"].as_str().unwrap_or("stdlib");
    let b = builder(config);
    let policy = req["policy"].as_str().unwrap_or("eager");
    let r = match (partials_of(req), policy) {
        (None, _) => b.build(),
        (Some(src), "lazy") => b.partials(liquid::partials::LazyCompiler::new(src)).build(),
        (Some(src), "ondemand") => b.partials(liquid::partials::OnDemandCompiler::new(src)).build(),
        (Some(src), _) => b.partials(liquid::partials::EagerCompiler::new(src)).build(),
    };
    r.map_err(|e| e.to_string())
}

/// a sink that accepts at most `budget` bytes (short write at the boundary), then fails;
/// or fails at the k-th call
pub struct Sink {
    pub accepted: Vec<u8>,
    pub budget: Option<usize>,
    pub fail_at_call: Option<usize>,
    pub calls: usize,
    pub calls_after_failure: usize,
    pub failed: bool,
}

impl Write for Sink {
    fn write(&mut self, buf: &[u8]) -> std::io::Result<usize> {
        self.calls += 1;
        if self.failed {
            self.calls_after_failure += 1;
            return Err(std::io::Error::new(std::io::ErrorKind::Other, "sink failed"));
        }
        if let Some(k) = self.fail_at_call {
            if self.calls >= k {
                self.failed = true;
                return Err(std::io::Error::new(std::io::ErrorKind::Other, "sink failed"));
            }
        }
        if let Some(b) = self.budget {
            let room = b.saturating_sub(self.accepted.len());
            if room == 0 && !buf.is_empty() {
                self.failed = true;
                return Err(std::io::Error::new(std::io::ErrorKind::Other, "sink full"));
            }
            let n = room.min(buf.len());
            self.accepted.extend_from_slice(&buf[..n]);
            return Ok(n);
        }
        self.accepted.extend_from_slice(buf);
        Ok(buf.len())
    }
    fn flush(&mut self) -> std::io::Result<()> {
        Ok(())
    }
}

pub fn out_json(bytes: &[u8]) -> J {
    match std::str::from_utf8(bytes) {
        Ok(s) => json!(s),
        Err(_) => json!({"invalid_utf8": bytes}),
    }
}

pub fn run(req: &J) -> J {
    let parser = match build_parser(req) {
        Ok(p) => p,
        Err(e) => return json!({"build_err": e}),
    };
    let tpl = match parser.parse(req["tpl"].as_str().unwrap()) {
        Ok(t) => t,
        Err(e) => return json!({"parse_err": e.to_string()}),
    };
    let data = val::obj_from_json(&req["data"]);
    if req.get("sink").is_some() {
        let mut sink = Sink {
            accepted: Vec::new(),
            budget: req["sink"]["budget"].as_u64().map(|x| x as usize),
            fail_at_call: req["sink"]["fail_at_call"].as_u64().map(|x| x as usize),
            calls: 0,
            calls_after_failure: 0,
            failed: false,
        };
        let r = tpl.render_to(&mut sink, &data);
        return json!({
            "result": match r { Ok(()) => json!("ok"), Err(e) => json!({"err": e.to_string()}) },
            "accepted": out_json(&sink.accepted), "accepted_bytes": sink.accepted.clone(), "calls": sink.calls,
            "calls_after_failure": sink.calls_after_failure, "sink_failed": sink.failed,
        });
    }
    let mut buf: Vec<u8> = Vec::new();
    match tpl.render_to(&mut buf, &data) {
        Ok(()) => json!({"ok": out_json(&buf)}),
        Err(e) => json!({"err": e.to_string(), "partial": out_json(&buf)}),
    }
}
