(* Peg.v — the semantics of a pest grammar (pest 2.7): ordered choice, greedy repetition, negative
   lookahead, the three atomicity modes with the implicit WHITESPACE* between the parts of a
   sequence and between repetitions, silent rules, and the token (pair) stream.
   The grammar itself is data: coq/gen/Grammar.v is generated from
   crates/core/src/parser/grammar.pest by tools/translate.py on every run. *)
From LV Require Export Base.

Inductive atom := NonAtomic | Atomic | Compound.
Inductive modif := MNormal | MSilent | MAtomic | MCompound | MNonAtomic.
Inductive pe :=
| PLit (s : str) | PRng (a b : char) | PAny | PSoi | PEoi
| PRef (n : nat)
| PSeq (a b : pe) | PAlt (a b : pe)
| PStar (a : pe) | PPlus (a : pe) | POpt (a : pe) | PNot (a : pe).
Record rule := mkRule { r_mod : modif; r_body : pe }.
Definition grammar := list rule.
(* a pair of the token stream: rule, start and end (in characters); pre-order *)
Record tok := mkTok { t_rule : nat; t_start : nat; t_end : nat }.
Definition eoi_id : nat := 1000.          (* the built-in EOI rule emits a pair too *)

Fixpoint strip_prefix (l s : str) : option str :=
  match l, s with
  | [], _ => Some s
  | c :: l', d :: s' => if N.eqb c d then strip_prefix l' s' else None
  | _ :: _, [] => None
  end.
Definition atom_eqb (a b : atom) : bool :=
  match a, b with NonAtomic, NonAtomic | Atomic, Atomic | Compound, Compound => true | _, _ => false end.

(* result: None = out of fuel; Some None = no match; Some (Some (rest, position, pairs)) *)
Definition pres := option (option (str * nat * list tok)).

Section Eval.
Variable g : grammar.
Variable ws : option nat.        (* the WHITESPACE rule, if the grammar defines one *)

Fixpoint ev (fuel : nat) (at_ : atom) (la : bool) (e : pe) (s : str) (pos : nat) {struct fuel} : pres :=
  match fuel with
  | O => None
  | S f =>
    let skip (s : str) (pos : nat) : pres :=
      match at_, ws with
      | NonAtomic, Some w => ev f Atomic la (PStar (PRef w)) s pos
      | _, _ => Some (Some (s, pos, []))
      end in
    match e with
    | PLit l => Some (match strip_prefix l s with Some r => Some (r, pos + length l, []) | None => None end)
    | PRng a b => Some (match s with
                        | c :: r => if (a <=? c)%N && (c <=? b)%N then Some (r, S pos, []) else None
                        | [] => None end)
    | PAny => Some (match s with _ :: r => Some (r, S pos, []) | [] => None end)
    | PSoi => Some (if Nat.eqb pos 0 then Some (s, pos, []) else None)
    | PEoi => Some (match s with
                    | [] => Some (s, pos, if la || atom_eqb at_ Atomic then [] else [mkTok eoi_id pos pos])
                    | _ => None end)
    | PRef n =>
        match nth_error g n with
        | None => Some None
        | Some r =>
            let at' := match r_mod r with MAtomic => Atomic | MCompound => Compound | MNonAtomic => NonAtomic | _ => at_ end in
            let emits := negb la && negb (atom_eqb at_ Atomic) && negb (match r_mod r with MSilent => true | _ => false end) in
            match ev f at' la (r_body r) s pos with
            | Some (Some (s', p', ts)) => Some (Some (s', p', if emits then mkTok n pos p' :: ts else ts))
            | x => x
            end
        end
    | PSeq a b =>
        match ev f at_ la a s pos with
        | Some (Some (s1, p1, t1)) =>
            match skip s1 p1 with
            | Some (Some (s2, p2, _)) =>
                match ev f at_ la b s2 p2 with
                | Some (Some (s3, p3, t3)) => Some (Some (s3, p3, t1 ++ t3))
                | x => x
                end
            | x => x
            end
        | x => x
        end
    | PAlt a b =>
        match ev f at_ la a s pos with
        | Some None => ev f at_ la b s pos
        | x => x
        end
    | POpt a =>
        match ev f at_ la a s pos with
        | Some None => Some (Some (s, pos, []))
        | x => x
        end
    | PNot a =>
        match ev f at_ true a s pos with
        | Some None => Some (Some (s, pos, []))
        | Some (Some _) => Some None
        | None => None
        end
    | PPlus a =>
        match ev f at_ la a s pos with
        | Some (Some (s1, p1, t1)) =>
            (* further repetitions: (skip ~ a)*, each a unit that is undone when it fails *)
            match skip s1 p1 with
            | Some (Some (s2, p2, _)) =>
                match ev f at_ la (PPlus a) s2 p2 with
                | Some (Some (s3, p3, t3)) => Some (Some (s3, p3, t1 ++ t3))
                | Some None => Some (Some (s1, p1, t1))
                | None => None
                end
            | Some None => Some (Some (s1, p1, t1))
            | None => None
            end
        | x => x
        end
    | PStar a =>
        match ev f at_ la (PPlus a) s pos with
        | Some None => Some (Some (s, pos, []))
        | x => x
        end
    end
  end.

Definition parse (fuel : nat) (start : nat) (s : str) : pres := ev fuel NonAtomic false (PRef start) s 0.
End Eval.
