(* RawProofs.v — what the delimiter rules and the Raw rule of the generated grammar match, exactly, on every
   text: Raw is the longest prefix in which no position starts markup, where the whitespace in front of
   a trim-marked opening delimiter counts as markup (left trim), and a trim-marked closing delimiter takes the
   whitespace run after it (right trim). *)
From LV Require Import Base Peg Grammar PegProofs.
From Coq Require Import Lia.

Definition starts (l s : str) : bool := match strip_prefix l s with Some _ => true | None => false end.
Definition after (l s : str) : str := match strip_prefix l s with Some r => r | None => s end.
Definition open_tag : str := [123;37]%N.      Definition open_tag_trim : str := [123;37;45]%N.
Definition open_exp : str := [123;123]%N.     Definition open_exp_trim : str := [123;123;45]%N.
Definition close_tag : str := [37;125]%N.     Definition close_tag_trim : str := [45;37;125]%N.
Definition close_exp : str := [125;125]%N.    Definition close_exp_trim : str := [45;125;125]%N.

(* an opening delimiter: `ws* {%-`, else `{%` *)
Definition start_spec (plain trim : str) (s : str) (pos : nat) : option (str * nat * list tok) :=
  match strip_prefix trim (drop_ws s) with
  | Some r => Some (r, pos + count_ws s + 3, [])
  | None => match strip_prefix plain s with Some r => Some (r, pos + 2, []) | None => None end
  end.
Lemma start_exact (which : nat) (plain trim : str) at_ la s pos fuel :
  (which = r_TagStart /\ plain = open_tag /\ trim = open_tag_trim) \/ (which = r_ExpressionStart /\ plain = open_exp /\ trim = open_exp_trim) ->
  at_ <> NonAtomic -> 12 + length s <= fuel ->
  evg fuel at_ la (PRef which) s pos = Some (start_spec plain trim s pos).
Proof.
  intros Hw Hat Hf. do 4 (destruct fuel as [|fuel]; [lia|]). unfold start_spec.
  destruct Hw as [(-> & -> & ->) | (-> & -> & ->)]; rewrite ev_ref; rules; cbn [r_mod r_body]; cbv zeta;
    replace (negb la && negb (atom_eqb at_ Atomic) && negb true) with false by (destruct la, at_; reflexivity);
    rewrite ev_alt, ev_seq; (rewrite (ws_star_any _ _ s pos (S fuel)) by (try assumption; lia));
    rewrite skipf_id by exact Hat; rewrite !ev_lit; unfold open_tag_trim, open_exp_trim, open_tag, open_exp;
    (destruct (strip_prefix _ (drop_ws s)); [cbn [app length]; apply f_equal, f_equal; f_equal; f_equal; lia|]);
    destruct (strip_prefix _ s); reflexivity.
Qed.

Lemma strip_prefix_len : forall l s r, strip_prefix l s = Some r -> length r <= length s.
Proof.
  induction l as [|c l IH]; intros s r H; [cbn in H; injection H as <-; lia|].
  destruct s as [|d s]; [discriminate|]. cbn [strip_prefix] in H. destruct (c =? d)%N; [|discriminate].
  specialize (IH s r H). cbn [length]. lia.
Qed.
(* a closing delimiter: `-%}` and the whitespace run after it, else `%}` *)
Definition end_spec (plain trim : str) (s : str) (pos : nat) : option (str * nat * list tok) :=
  match strip_prefix trim s with
  | Some r => Some (drop_ws r, pos + 3 + count_ws r, [])
  | None => match strip_prefix plain s with Some r => Some (r, pos + 2, []) | None => None end
  end.
Lemma end_body at_ la s pos fuel plain trim : at_ <> NonAtomic -> 10 + length s <= fuel -> length trim = 3 -> length plain = 2 ->
  evg (S (S fuel)) at_ la (PAlt (PSeq (PLit trim) (PStar (PRef r_WHITESPACE))) (PLit plain)) s pos = Some (end_spec plain trim s pos).
Proof.
  intros Hat Hf H3 H2. unfold end_spec. rewrite ev_alt, ev_seq. destruct fuel as [|f]; [lia|]. rewrite !ev_lit. rewrite H3, H2.
  destruct (strip_prefix trim s) as [r|] eqn:E.
  - rewrite skipf_id by exact Hat. pose proof (strip_prefix_len _ _ _ E) as Hl.
    rewrite (ws_star_any _ _ r _ (S f)) by (try assumption; lia). cbn [app]. apply f_equal, f_equal; f_equal; f_equal; lia.
  - destruct (strip_prefix plain s); reflexivity.
Qed.
Lemma end_exact (which : nat) (plain trim : str) at_ la s pos fuel :
  (which = r_TagEnd /\ plain = close_tag /\ trim = close_tag_trim) \/ (which = r_ExpressionEnd /\ plain = close_exp /\ trim = close_exp_trim) ->
  at_ <> NonAtomic -> 14 + length s <= fuel ->
  evg fuel at_ la (PRef which) s pos = Some (end_spec plain trim s pos).
Proof.
  intros Hw Hat Hf. do 3 (destruct fuel as [|fuel]; [lia|]).
  destruct Hw as [(-> & -> & ->) | (-> & -> & ->)]; rewrite ev_ref; rules; cbn [r_mod r_body]; cbv zeta;
    replace (negb la && negb (atom_eqb at_ Atomic) && negb true) with false by (destruct la, at_; reflexivity).
  - match goal with |- match ?e with _ => _ end = _ =>
      change e with (evg (S (S fuel)) at_ la (PAlt (PSeq (PLit close_tag_trim) (PStar (PRef r_WHITESPACE))) (PLit close_tag)) s pos) end.
    rewrite end_body by (auto; lia). destruct (end_spec _ _ s pos) as [[[? ?] ?]|]; reflexivity.
  - match goal with |- match ?e with _ => _ end = _ =>
      change e with (evg (S (S fuel)) at_ la (PAlt (PSeq (PLit close_exp_trim) (PStar (PRef r_WHITESPACE))) (PLit close_exp)) s pos) end.
    rewrite end_body by (auto; lia). destruct (end_spec _ _ s pos) as [[[? ?] ?]|]; reflexivity.
Qed.

(* markup starts here: an opening delimiter matches *)
Definition markup_at (s : str) : bool :=
  starts open_tag_trim (drop_ws s) || starts open_tag s || starts open_exp_trim (drop_ws s) || starts open_exp s.
Lemma starts_exact at_ la s pos fuel : at_ <> NonAtomic -> 13 + length s <= fuel ->
  exists r, evg fuel at_ la (PAlt (PRef r_TagStart) (PRef r_ExpressionStart)) s pos = Some r /\
            (r = None <-> markup_at s = false).
Proof.
  intros Hat Hf. destruct fuel as [|f]; [lia|]. rewrite ev_alt.
  rewrite (start_exact r_TagStart open_tag open_tag_trim at_ la s pos f) by (auto; lia).
  unfold markup_at, starts, start_spec at 1.
  destruct (strip_prefix open_tag_trim (drop_ws s)); [eexists; split; [reflexivity|]; split; [discriminate|intro X; discriminate X]|].
  destruct (strip_prefix open_tag s); [eexists; split; [reflexivity|]; split; [discriminate|intro X; discriminate X]|].
  rewrite (start_exact r_ExpressionStart open_exp open_exp_trim at_ la s pos f) by (auto; lia).
  unfold start_spec.
  destruct (strip_prefix open_exp_trim (drop_ws s)); [eexists; split; [reflexivity|]; split; [discriminate|intro X; discriminate X]|].
  destruct (strip_prefix open_exp s); [eexists; split; [reflexivity|]; split; [discriminate|intro X; discriminate X]|].
  eexists; split; [reflexivity|]. split; reflexivity.
Qed.

Lemma raw_item_exact s pos fuel : 16 + length s <= fuel ->
  evg fuel Atomic false raw_item s pos =
  Some (match s with c :: t => if markup_at s then None else Some (t, S pos, []) | [] => None end).
Proof.
  intros Hf. do 2 (destruct fuel as [|fuel]; [lia|]). unfold raw_item. rewrite ev_seq, ev_not.
  destruct (starts_exact Atomic true s pos fuel ltac:(discriminate) ltac:(lia)) as (r & -> & Hr).
  destruct r as [x|].
  - assert (markup_at s = true) as -> by (destruct (markup_at s); [reflexivity|]; destruct Hr as [_ Hr]; specialize (Hr eq_refl); discriminate).
    destruct s; reflexivity.
  - rewrite (proj1 Hr eq_refl). rewrite skipf_id by discriminate. destruct fuel as [|f]; [lia|].
    destruct s as [|c t]; reflexivity.
Qed.

(* the length of the Raw element that starts here: up to the first position where markup starts *)
Fixpoint raw_len (s : str) : nat :=
  match s with [] => 0 | c :: t => if markup_at s then 0 else S (raw_len t) end.
Lemma raw_len_le s : raw_len s <= length s.
Proof. induction s as [|c t IH]; [reflexivity|]. cbn [raw_len length]. destruct (markup_at (c :: t)); lia. Qed.

Lemma raw_plus_exact : forall s pos fuel, 18 + length s <= fuel ->
  evg fuel Atomic false (PPlus raw_item) s pos =
  Some (match raw_len s with 0 => None | n => Some (skipn n s, pos + n, []) end).
Proof.
  induction s as [|c t IH]; intros pos fuel Hf; (destruct fuel as [|f]; [lia|]); rewrite ev_plus.
  - rewrite raw_item_exact by (cbn [length] in *; lia). reflexivity.
  - rewrite raw_item_exact by (cbn [length] in *; lia). cbn [raw_len].
    destruct (markup_at (c :: t)); [reflexivity|].
    rewrite skipf_id by discriminate. rewrite (IH (S pos) f) by (cbn [length] in *; lia).
    destruct (raw_len t) as [|n]; cbn [skipn app]; [apply res_eq; lia|apply res_eq; lia].
Qed.

(* the Raw rule, exactly *)
Theorem raw_rule_exact s pos fuel : 20 + length s <= fuel ->
  evg fuel Compound false (PRef r_Raw) s pos =
  Some (match raw_len s with 0 => None | n => Some (skipn n s, pos + n, [mkTok r_Raw pos (pos + n)]) end).
Proof.
  intros Hf. destruct fuel as [|f]; [lia|]. rewrite ev_ref. rules. cbn [r_mod r_body atom_eqb negb andb]. cbv zeta.
  rwn (raw_plus_exact s pos f ltac:(lia)). destruct (raw_len s); reflexivity.
Qed.

(* ---- what that means for trim markers ---- *)
Fixpoint ends_nonws (t : str) : bool :=
  match t with [] => false | c :: t' => match t' with [] => negb (is_ws c) | _ => ends_nonws t' end end.
Definition all_ws (w : str) : bool := forallb is_ws w.
Definition brace (c : char) : bool := (c =? 123)%N.

Lemma is_ws_not_brace c : is_ws c = true -> brace c = false.
Proof. unfold is_ws, brace. destruct (N.eqb_spec c 123) as [->|]; [discriminate|reflexivity]. Qed.
Lemma starts_brace_head l c x : brace c = false -> starts (123%N :: l) (c :: x) = false.
Proof. unfold starts, brace. cbn [strip_prefix]. rewrite N.eqb_sym. intros ->. reflexivity. Qed.
Lemma markup_nonws c x : brace c = false -> is_ws c = false -> markup_at (c :: x) = false.
Proof.
  intros Hb Hw. unfold markup_at. cbn [drop_ws]. rewrite Hw.
  unfold open_tag_trim, open_tag, open_exp_trim, open_exp. rewrite !starts_brace_head by exact Hb. reflexivity.
Qed.
Lemma markup_ws c x : is_ws c = true -> markup_at (c :: x) = starts open_tag_trim (drop_ws x) || starts open_exp_trim (drop_ws x).
Proof.
  intros Hw. unfold markup_at. cbn [drop_ws]. rewrite Hw.
  unfold open_tag, open_exp. rewrite !starts_brace_head by (apply is_ws_not_brace, Hw).
  destruct (starts open_tag_trim (drop_ws x)), (starts open_exp_trim (drop_ws x)); reflexivity.
Qed.
Lemma drop_ws_all w x : all_ws w = true -> drop_ws (w ++ x) = drop_ws x.
Proof. induction w as [|c w IH]; [reflexivity|]. cbn [all_ws forallb app drop_ws]. intro H. apply andb_true_iff in H as [H1 H2]. rewrite H1. apply IH, H2. Qed.
Lemma drop_ws_brace x : starts open_tag x = true \/ starts open_exp x = true -> drop_ws x = x.
Proof.
  intros H. destruct x as [|c x]; [reflexivity|]. cbn [drop_ws].
  assert (c = 123%N) as ->.
  { unfold starts, open_tag, open_exp in H. cbn [strip_prefix] in H. destruct (N.eqb_spec 123 c) as [<-|]; [reflexivity|]. destruct H; discriminate. }
  reflexivity.
Qed.
Lemma starts_trim_plain x : starts open_tag_trim x = true -> starts open_tag x = true.
Proof.
  unfold starts, open_tag_trim, open_tag. destruct x as [|a [|b [|c x]]]; cbn [strip_prefix]; try discriminate;
    repeat match goal with |- context [(?u =? ?v)%N] => destruct (u =? v)%N end; try discriminate; reflexivity.
Qed.
Lemma starts_trim_plain_exp x : starts open_exp_trim x = true -> starts open_exp x = true.
Proof.
  unfold starts, open_exp_trim, open_exp. destruct x as [|a [|b [|c x]]]; cbn [strip_prefix]; try discriminate;
    repeat match goal with |- context [(?u =? ?v)%N] => destruct (u =? v)%N end; try discriminate; reflexivity.
Qed.
Definition opener_trim (rest : str) : bool := starts open_tag_trim rest || starts open_exp_trim rest.
Definition opener (rest : str) : bool := starts open_tag rest || starts open_exp rest.
Lemma opener_trim_opener rest : opener_trim rest = true -> opener rest = true.
Proof. unfold opener_trim, opener. intro H. apply orb_true_iff in H. destruct H as [H|H]; [rewrite (starts_trim_plain _ H)|rewrite (starts_trim_plain_exp _ H), orb_true_r]; reflexivity. Qed.
Lemma opener_drop rest : opener rest = true -> drop_ws rest = rest.
Proof. unfold opener. intro H. apply orb_true_iff in H. apply drop_ws_brace, H. Qed.
Lemma markup_opener rest : opener rest = true -> markup_at rest = true.
Proof. unfold opener, markup_at. intro H. apply orb_true_iff in H. destruct H as [H|H]; rewrite H; rewrite ?orb_true_r; reflexivity. Qed.

(* whitespace in front of a trim-marked opener is markup; in front of a plain one it is text *)
Lemma raw_len_ws_trim w rest : all_ws w = true -> opener_trim rest = true -> raw_len (w ++ rest) = 0.
Proof.
  intros Hw Ho. destruct w as [|c w].
  - cbn [app]. destruct rest as [|c r]; [reflexivity|]. cbn [raw_len]. rewrite markup_opener by (apply opener_trim_opener, Ho). reflexivity.
  - cbn [app raw_len]. cbn [all_ws forallb] in Hw. apply andb_true_iff in Hw as [H1 H2].
    rewrite markup_ws by exact H1. rewrite drop_ws_all by exact H2. rewrite opener_drop by (apply opener_trim_opener, Ho).
    unfold opener_trim in Ho. rewrite Ho. reflexivity.
Qed.
Lemma raw_len_ws_plain w rest : all_ws w = true -> opener rest = true -> opener_trim rest = false -> raw_len (w ++ rest) = length w.
Proof.
  intros Hw Ho Hn. induction w as [|c w IH].
  - cbn [app length]. destruct rest as [|c r]; [reflexivity|]. cbn [raw_len]. rewrite markup_opener by exact Ho. reflexivity.
  - cbn [app raw_len length]. cbn [all_ws forallb] in Hw. apply andb_true_iff in Hw as [H1 H2].
    rewrite markup_ws by exact H1. rewrite drop_ws_all by exact H2. rewrite opener_drop by exact Ho.
    unfold opener_trim in Hn. rewrite Hn. f_equal. apply IH, H2.
Qed.

Lemma drop_ws_text t x : no_brace t = true -> ends_nonws t = true ->
  exists d u, drop_ws (t ++ x) = d :: u /\ brace d = false /\ is_ws d = false.
Proof.
  induction t as [|c t IH]; [discriminate|]. intros Hn He. cbn [no_brace forallb] in Hn. apply andb_true_iff in Hn as [Hc Hn].
  cbn [app drop_ws]. destruct (is_ws c) eqn:W.
  - destruct t as [|c' t']; [cbn [ends_nonws] in He; rewrite W in He; discriminate|]. apply IH; [exact Hn|exact He].
  - exists c, (t ++ x). repeat split; auto. unfold brace. apply negb_true_iff, Hc.
Qed.

(* LEFT TRIM: text, then a whitespace run, then a trim-marked opener: Raw is the text alone *)
Theorem left_trim_excludes_whitespace t w rest :
  no_brace t = true -> ends_nonws t = true -> all_ws w = true -> opener_trim rest = true ->
  raw_len (t ++ w ++ rest) = length t.
Proof.
  intros Hn He Hw Ho. induction t as [|c t IH]; [discriminate|].
  cbn [no_brace forallb] in Hn. apply andb_true_iff in Hn as [Hc Hn]. apply negb_true_iff in Hc. fold (brace c) in Hc.
  cbn [app raw_len length].
  assert (M : markup_at (c :: t ++ w ++ rest) = false).
  { destruct (is_ws c) eqn:W; [|apply markup_nonws; assumption].
    rewrite markup_ws by exact W.
    destruct t as [|c' t']; [cbn [ends_nonws] in He; rewrite W in He; discriminate|].
    destruct (drop_ws_text (c' :: t') (w ++ rest) Hn He) as (d & u & -> & Hd & _).
    unfold open_tag_trim, open_exp_trim. rewrite !starts_brace_head by exact Hd. reflexivity. }
  rewrite M. f_equal. destruct t as [|c' t'].
  - cbn [app length]. apply raw_len_ws_trim; assumption.
  - apply IH; [exact Hn|exact He].
Qed.
(* NO TRIM: the whitespace run in front of a plain opener belongs to the text *)
Theorem plain_opener_keeps_whitespace t w rest :
  no_brace t = true -> all_ws w = true -> opener rest = true -> opener_trim rest = false ->
  raw_len (t ++ w ++ rest) = length t + length w.
Proof.
  intros Hn Hw Ho Hnt. induction t as [|c t IH]; [cbn [app length Nat.add]; apply raw_len_ws_plain; assumption|].
  cbn [no_brace forallb] in Hn. apply andb_true_iff in Hn as [Hc Hn]. apply negb_true_iff in Hc. fold (brace c) in Hc.
  cbn [app raw_len length Nat.add].
  assert (M : markup_at (c :: t ++ w ++ rest) = false).
  { destruct (is_ws c) eqn:W; [|apply markup_nonws; assumption].
    rewrite markup_ws by exact W.
    (* whatever the text after c is, the first non-whitespace character is a non-brace of t, or the plain opener *)
    clear IH. revert Hn. induction t as [|c' t' IHt]; intro Hn.
    - cbn [app]. rewrite drop_ws_all by exact Hw. rewrite opener_drop by exact Ho. exact Hnt.
    - cbn [no_brace forallb] in Hn. apply andb_true_iff in Hn as [Hc' Hn']. cbn [app drop_ws]. destruct (is_ws c') eqn:W'; [apply IHt, Hn'|].
      unfold open_tag_trim, open_exp_trim. rewrite !starts_brace_head by (apply negb_true_iff, Hc'). reflexivity. }
  rewrite M. f_equal. apply IH, Hn.
Qed.
