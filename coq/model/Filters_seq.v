(* Filters_seq.v — the string and array filters of crates/lib/src/stdlib/filters:
   string/{mod,case,operate,strip,truncate}.rs, slice.rs, mod.rs (size, default),
   html.rs (newline_to_br), array.rs.  Strings are lists of code points; Rust's
   str::split/splitn/replace/trim are written out as list functions. *)
From LV Require Export Value.

(* ---- str primitives (Rust std, modelled) ---- *)
(* str::split(&str): leftmost non-overlapping matches; an empty pattern matches at every boundary *)
Fixpoint split_go (p s cur : str) (drop : nat) : list str :=
  match s with
  | [] => [rev cur]
  | c :: t =>
      match drop with
      | S k => split_go p t cur k
      | O => if prefixb p s then rev cur :: split_go p t [] (length p - 1)
             else split_go p t (c :: cur) 0
      end
  end.
Definition split_str (p s : str) : list str :=
  match p with
  | [] => [] :: map (fun c => [c]) s ++ [[]]
  | _ => split_go p s [] 0
  end.
(* the first match: (text before, text after) — str::splitn(2, p) has two pieces iff this is Some *)
Fixpoint find_first (p s cur : str) : option (str * str) :=
  if prefixb p s then Some (rev cur, skipn (length p) s)
  else match s with [] => None | c :: t => find_first p t (c :: cur) end.
Fixpoint join_str (sep : str) (l : list str) : str :=
  match l with
  | [] => []
  | [x] => x
  | x :: t => x ++ sep ++ join_str sep t
  end.
(* str::replace *)
Fixpoint replace_go (a b s : str) (drop : nat) : str :=
  match s with
  | [] => []
  | c :: t =>
      match drop with
      | S k => replace_go a b t k
      | O => if prefixb a s then b ++ replace_go a b t (length a - 1) else c :: replace_go a b t 0
      end
  end.
Definition replace_str (a b s : str) : str :=
  match a with
  | [] => b ++ flat_map (fun c => c :: b) s
  | _ => replace_go a b s 0
  end.
Fixpoint trim_start (s : str) : str :=
  match s with [] => [] | c :: t => if is_whitespace c then trim_start t else s end.
Definition trim_end (s : str) : str := rev (trim_start (rev s)).
Definition trim (s : str) : str := trim_end (trim_start s).

(* ---- argument conversion (derive/src/filter_parameters.rs) ---- *)
Section F.
Variable O : oracle.
Definition arg_str (v : value) : str := to_kstr O v.
Definition arg_int (v : value) : res Z :=
  match v with
  | VScalar s => match to_integer s with Some z => Ok z | None => Err EInvalidArgument end
  | _ => Err EInvalidArgument
  end.
Definition opt_int (d : Z) (a : option value) : res Z := match a with None => Ok d | Some v => arg_int v end.
Definition sstr (s : str) : value := VScalar (SStr s).

(* slice.rs canonicalize_slice (isize arithmetic; the cap uses a saturating addition) *)
Definition sat_add (a b : Z) : Z := let r := (a + b)%Z in if (i64_max <? r)%Z then i64_max else if (r <? i64_min)%Z then i64_min else r.
Definition slice_list {A} (off len : Z) (l : list A) : list A :=
  let vlen := Z.of_nat (length l) in
  let off1 := Z.min off vlen in
  let off2 := if (off1 <? 0)%Z then (off1 + vlen)%Z else off1 in
  let len2 := if (vlen <? sat_add off2 len)%Z then (vlen - off2)%Z else len in
  (* (off2 as usize, len2 as usize): a negative offset becomes enormous and skips everything *)
  if (off2 <? 0)%Z then [] else firstn (Z.to_nat len2) (skipn (Z.to_nat off2) l).

Inductive seqf :=
| QAppend | QPrepend | QUpcase | QDowncase | QCapitalize
| QStrip | QLstrip | QRstrip | QStripNewlines
| QReplace | QReplaceFirst | QRemove | QRemoveFirst
| QSplit | QJoin | QTruncate | QTruncateWords | QSlice | QSize | QFirst | QLast
| QNewlineToBr | QDefault
| QReverse | QUniq | QCompact | QConcat | QMap | QWhere | QSort | QSortNatural.

Definition k_ellipsis : str := [46;46;46]%N.
Definition k_br : str := [60;98;114;32;47;62;10]%N.   (* "<br />\n" *)

(* ---- array.rs helpers ---- *)
Definition as_sequence (v : value) : list value :=
  match v with VArray l => l | VNil => [] | _ => [v] end.
Definition is_object (v : value) : bool := match v with VObject _ => true | _ => false end.
Definition is_nil (v : value) : bool := match v with VNil => true | _ => false end.
Definition prop_get (v : value) (p : str) : value :=     (* safe_property_getter *)
  match v with VObject kvs => match lookup p kvs with Some x => x | None => VNil end | _ => VNil end.
Definition nil_safe_compare (a b : value) : option comparison :=
  if is_nil a && is_nil b then Some Eq
  else if is_nil a then Some Gt
  else if is_nil b then Some Lt
  else value_cmp a b.
Definition cmp_or_eq (c : option comparison) : comparison := match c with Some x => x | None => Eq end.
Definition lower_str (s : str) : str := flat_map (lower_c O) s.
Definition upper_str (s : str) : str := flat_map (upper_c O) s.
Definition casecmp_key (v : value) : option str := if is_nil v then None else Some (lower_str (to_kstr O v)).
Definition nil_safe_casecmp (a b : option str) : comparison :=
  match a, b with
  | None, None => Eq
  | None, _ => Gt
  | _, None => Lt
  | Some x, Some y => str_cmp x y
  end.

(* slice::sort_by: stable; its result is only specified for a total preorder.  Stable
   insertion sort, and a check that the comparator is a total preorder on the input. *)
Section Sort.
Context {A : Type} (cmp : A -> A -> comparison).
Fixpoint insert_sorted (x : A) (l : list A) : list A :=
  match l with
  | [] => [x]
  | h :: t => match cmp x h with Gt => h :: insert_sorted x t | _ => x :: l end
  end.
Definition stable_sort (l : list A) : list A := fold_right insert_sorted [] l.
Definition leq (a b : A) : bool := match cmp a b with Gt => false | _ => true end.
Definition total_preorder_on (l : list A) : bool :=
  forallb (fun a => forallb (fun b =>
     (* antisymmetric results *) (match cmp a b, cmp b a with Lt, Gt | Gt, Lt | Eq, Eq => true | _, _ => false end) &&
     forallb (fun c => negb (leq a b && leq b c) || leq a c) l) l) l.
End Sort.
Definition site_sort_unspecified : N := 900%N.
Definition sort_by {A} (cmp : A -> A -> comparison) (l : list A) : res (list A) :=
  if total_preorder_on cmp l then Ok (stable_sort cmp l) else Panic site_sort_unspecified.

Fixpoint uniq_go (seen : list value) (l : list value) : list value :=   (* seen is reversed `deduped` *)
  match l with
  | [] => []
  | x :: t => if existsb (fun v => value_eq v x) seen then uniq_go seen t else x :: uniq_go (seen ++ [x]) t
  end.

Definition seq_filter (f : seqf) (input : value) (args : list value) : res value :=
  let s := to_kstr O input in
  match f, args with
  | QAppend, [a] => Ok (sstr (s ++ arg_str a))
  | QPrepend, [a] => Ok (sstr (arg_str a ++ s))
  | QUpcase, [] => Ok (sstr (upper_str s))
  | QDowncase, [] => Ok (sstr (lower_str s))
  | QCapitalize, [] => Ok (sstr (match s with [] => [] | c :: t => upper_c O c ++ t end))
  | QStrip, [] => Ok (sstr (trim s))
  | QLstrip, [] => Ok (sstr (trim_start s))
  | QRstrip, [] => Ok (sstr (trim_end s))
  | QStripNewlines, [] => Ok (sstr (filter (fun c => negb (N.eqb c 10 || N.eqb c 13)) s))
  | QReplace, [a] => Ok (sstr (replace_str (arg_str a) [] s))
  | QReplace, [a; b] => Ok (sstr (replace_str (arg_str a) (arg_str b) s))
  | QReplaceFirst, [a] | QReplaceFirst, [a; _] =>
      let r := match args with [_; b] => arg_str b | _ => [] end in
      Ok (sstr (match find_first (arg_str a) s [] with Some (x, y) => x ++ r ++ y | None => s end))
  | QRemove, [a] => Ok (sstr (replace_str (arg_str a) [] s))
  | QRemoveFirst, [a] => Ok (sstr (match find_first (arg_str a) s [] with Some (x, y) => x ++ y | None => s end))
  | QSplit, [a] => Ok (match s with [] => VArray [] | _ => VArray (map sstr (split_str (arg_str a) s)) end)
  | QJoin, [] | QJoin, [_] =>
      let sep := match args with [a] => arg_str a | _ => [32%N] end in
      match input with
      | VArray l => Ok (sstr (join_str sep (map (to_kstr O) l)))
      | _ => Err EInvalidInput
      end
  | QTruncate, [] | QTruncate, [_] | QTruncate, [_; _] =>
      do n <- opt_int 50 (nth_error args 0);
      let e := match nth_error args 1 with Some b => arg_str b | None => k_ellipsis end in
      if (n <? 0)%Z then Ok input     (* `as usize` of a negative length is enormous *)
      else if (n <? Z.of_nat (length s))%Z
           then Ok (sstr (concat (firstn (Z.to_nat n - length e) (graphemes O s)) ++ e))
           else Ok input
  | QTruncateWords, [] | QTruncateWords, [_] | QTruncateWords, [_; _] =>
      do n <- opt_int 50 (nth_error args 0);
      let e := match nth_error args 1 with Some b => arg_str b | None => k_ellipsis end in
      if (n <? 0)%Z then Ok input
      else
        let wl := split_str [32%N] s in
        if (n <? Z.of_nat (length wl))%Z then Ok (sstr (join_str [32%N] (firstn (Z.to_nat n) wl) ++ e)) else Ok input
  | QSlice, [_] | QSlice, [_; _] =>
      do off <- opt_int 0 (nth_error args 0);
      do len <- opt_int 1 (nth_error args 1);
      if (len <? 1)%Z then Err EInvalidArgument
      else match input with
           | VArray l => Ok (VArray (slice_list off len l))
           | _ => Ok (sstr (slice_list off len s))
           end
  | QSize, [] =>
      Ok (VScalar (SInt (match input with
                         | VScalar _ => Z.of_nat (length s)
                         | VArray l => Z.of_nat (length l)
                         | VObject l => Z.of_nat (length l)
                         | _ => 0%Z end)))
  | QFirst, [] =>
      match input with
      | VScalar _ => Ok (sstr (firstn 1 s))
      | VArray l => Ok (match l with x :: _ => x | [] => VNil end)
      | _ => Err EInvalidInput
      end
  | QLast, [] =>
      match input with
      | VScalar _ => Ok (sstr (match rev s with c :: _ => [c] | [] => [] end))
      | VArray l => Ok (match rev l with x :: _ => x | [] => VNil end)
      | _ => Err EInvalidInput
      end
  | QNewlineToBr, [] => Ok (sstr (flat_map (fun c => if N.eqb c 10 then k_br else [c]) s))
  | QDefault, [a] => Ok (if query_state input DefaultValue then a else input)
  | QReverse, [] => match input with VArray l => Ok (VArray (rev l)) | _ => Err EInvalidInput end
  | QUniq, [] => match input with VArray l => Ok (VArray (uniq_go [] l)) | _ => Err EInvalidInput end
  | QCompact, [] => match input with VArray l => Ok (VArray (filter (fun v => negb (is_nil v)) l)) | _ => Err EInvalidInput end
  | QCompact, [p] =>
      match input with
      | VArray l =>
          if forallb is_object l
          then Ok (VArray (filter (fun v => negb (is_nil (prop_get v (arg_str p)))) l))
          else Err EInvalidInput
      | _ => Err EInvalidInput
      end
  | QConcat, [a] =>
      match input with
      | VArray l => match a with VArray m => Ok (VArray (l ++ m)) | _ => Err EInvalidArgument end
      | _ => Err EInvalidInput
      end
  | QMap, [p] =>
      match input with
      | VArray l => Ok (VArray (flat_map (fun v => match v with
                                                   | VObject kvs => match lookup (arg_str p) kvs with Some x => [x] | None => [] end
                                                   | _ => [] end) l))
      | _ => Err EInvalidInput
      end
  | QWhere, [p] | QWhere, [p; _] =>
      let target := nth_error args 1 in
      let keep (v : value) : bool :=
        match v with
        | VObject kvs => match lookup (arg_str p) kvs with
                         | Some x => match target with None => truthy x | Some t => value_eq t x end
                         | None => false end
        | _ => false end in
      match input with
      | VArray l => if forallb is_object l then Ok (VArray (filter keep l)) else Ok VNil
      | VObject _ => Ok (VArray (filter keep [input]))
      | _ => Err EInvalidInput
      end
  | QSort, [] | QSort, [_] =>
      let l := as_sequence input in
      match args with
      | [p] => if forallb is_object l
               then do r <- sort_by (fun a b => cmp_or_eq (nil_safe_compare (prop_get a (arg_str p)) (prop_get b (arg_str p)))) l; Ok (VArray r)
               else Err EInvalidInput
      | _ => do r <- sort_by (fun a b => cmp_or_eq (nil_safe_compare a b)) l; Ok (VArray r)
      end
  | QSortNatural, [] | QSortNatural, [_] =>
      let l := as_sequence input in
      let keyed := match args with
                   | [p] => map (fun v => (casecmp_key (prop_get v (arg_str p)), v)) l
                   | _ => map (fun v => (casecmp_key v, v)) l end in
      if (match args with [_] => negb (forallb is_object l) | _ => false end) then Err EInvalidInput
      else do r <- sort_by (fun a b => nil_safe_casecmp (fst a) (fst b)) keyed; Ok (VArray (map snd r))
  | _, _ => Err EParse
  end.

(* FilterChain::evaluate: the filters are applied left to right, each to the previous result *)
Fixpoint eval_chain (v : value) (fs : list (seqf * list value)) : res value :=
  match fs with
  | [] => Ok v
  | (f, args) :: t => do r <- seq_filter f v args; eval_chain r t
  end.
End F.
