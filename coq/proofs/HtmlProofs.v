(* Proofs about model/Filters_html.v (property C16). *)
From LV Require Import Base Value Utf8 Consts Filters_html BaseLemmas.

(* ---- the specification's constants (from the property text), independent of the source ---- *)
Definition cLT : char := 60%N. Definition cGT : char := 62%N. Definition cQUOT : char := 34%N. Definition cAPOS : char := 39%N.
Definition sLT : str := [108;116;59]%N.            (* "lt;"  *)
Definition sGT : str := [103;116;59]%N.            (* "gt;"  *)
Definition sAPOS : str := [35;51;57;59]%N.         (* "#39;" *)
Definition sQUOT : str := [113;117;111;116;59]%N.  (* "quot;" *)
Definition sAMP : str := [97;109;112;59]%N.        (* "amp;" *)

(* the tables generated from html.rs / url.rs are the ones the specification names *)
Lemma consts_match :
  html_prefixes = [sLT; sGT; sAPOS; sQUOT; sAMP] /\
  html_specials = [cLT; cGT; cAPOS; cQUOT; cAMP] /\
  html_escapes = [(cLT, cAMP :: sLT); (cGT, cAMP :: sGT); (cAPOS, cAMP :: sAPOS); (cQUOT, cAMP :: sQUOT)] /\
  html_amp_escaped = cAMP :: sAMP /\ html_amp_kept = [cAMP] /\
  url_base_set = k_NON_ALPHANUMERIC /\ url_set_edits = [(true, 45%N); (true, 46%N); (true, 95%N)] /\
  url_decode_replace = (43%N, [32%N]).
Proof. repeat split; reflexivity. Qed.

Definition special (c : char) : bool :=
  N.eqb c cLT || N.eqb c cGT || N.eqb c cAMP || N.eqb c cQUOT || N.eqb c cAPOS.

Definition nr_spec (t : str) : nat :=
  if prefixb sLT t then 3 else if prefixb sGT t then 3 else if prefixb sAPOS t then 4
  else if prefixb sQUOT t then 5 else if prefixb sAMP t then 4 else 0.
Lemma nr_escaped_unfold t : nr_escaped t = nr_spec t.
Proof. reflexivity. Qed.

(* normal form of one step of the escape loop *)
Lemma esc_cons once skip c t : esc once skip (c :: t) =
  match skip with
  | S k => c :: esc once k t
  | O =>
      if N.eqb c cLT then cAMP :: sLT ++ esc once 0 t
      else if N.eqb c cGT then cAMP :: sGT ++ esc once 0 t
      else if N.eqb c cAPOS then cAMP :: sAPOS ++ esc once 0 t
      else if N.eqb c cQUOT then cAMP :: sQUOT ++ esc once 0 t
      else if N.eqb c cAMP then
        match (if once then nr_spec t else 0) with
        | O => cAMP :: sAMP ++ esc once 0 t
        | S n => cAMP :: esc once (S n) t
        end
      else c :: esc once 0 t
  end.
Proof.
  destruct skip as [|k]; [|reflexivity].
  unfold cLT, cGT, cAPOS, cQUOT, cAMP.
  destruct (N.eqb_spec c 60) as [->|N1]; [reflexivity|].
  destruct (N.eqb_spec c 62) as [->|N2]; [reflexivity|].
  destruct (N.eqb_spec c 39) as [->|N3]; [reflexivity|].
  destruct (N.eqb_spec c 34) as [->|N4]; [reflexivity|].
  destruct (N.eqb_spec c 38) as [->|N5]; [destruct once; [|reflexivity]; cbn [esc memb_c existsb html_specials N.eqb Pos.eqb orb assoc_c html_escapes]; rewrite nr_escaped_unfold; destruct (nr_spec t); reflexivity|].
  cbn [esc memb_c existsb html_specials orb].
  destruct (N.eqb_spec c 60); [contradiction|]. destruct (N.eqb_spec c 62); [contradiction|].
  destruct (N.eqb_spec c 39); [contradiction|]. destruct (N.eqb_spec c 34); [contradiction|].
  destruct (N.eqb_spec c 38); [contradiction|]. reflexivity.
Qed.

(* safety checker: no special character except '&' immediately followed by one of the five names *)
Fixpoint ok (skip : nat) (s : str) : bool :=
  match s with
  | [] => true
  | c :: t =>
      match skip with
      | S k => negb (special c) && ok k t
      | O => if N.eqb c cAMP then (match nr_spec t with O => false | S k => ok (S k) t end)
             else negb (special c) && ok 0 t
      end
  end.
(* the inverse: replace the five entities by the characters they stand for *)
Fixpoint unesc (drop : nat) (s : str) : str :=
  match s with
  | [] => []
  | c :: t =>
      match drop with
      | S k => unesc k t
      | O => if N.eqb c cAMP then
               if prefixb sLT t then cLT :: unesc 3 t
               else if prefixb sGT t then cGT :: unesc 3 t
               else if prefixb sAPOS t then cAPOS :: unesc 4 t
               else if prefixb sQUOT t then cQUOT :: unesc 5 t
               else if prefixb sAMP t then cAMP :: unesc 4 t
               else c :: unesc 0 t
             else c :: unesc 0 t
      end
  end.

Ltac cases_c c :=
  destruct (N.eqb_spec c cLT) as [?E|?E]; [|destruct (N.eqb_spec c cGT) as [?E|?E]; [|destruct (N.eqb_spec c cAPOS) as [?E|?E];
    [|destruct (N.eqb_spec c cQUOT) as [?E|?E]; [|destruct (N.eqb_spec c cAMP) as [?E|?E]]]]].

Theorem unescape_escape : forall s, unesc 0 (escape_str s) = s.
Proof.
  unfold escape_str. induction s as [|c t IH]; [reflexivity|]. rewrite esc_cons.
  cases_c c; subst; cbn; rewrite ?IH; try reflexivity.
  destruct (N.eqb_spec c cAMP); [contradiction|]. reflexivity.
Qed.

Lemma special_false c : c <> cLT -> c <> cGT -> c <> cAPOS -> c <> cQUOT -> c <> cAMP -> special c = false.
Proof.
  intros. unfold special.
  destruct (N.eqb_spec c cLT), (N.eqb_spec c cGT), (N.eqb_spec c cAMP), (N.eqb_spec c cQUOT), (N.eqb_spec c cAPOS); try contradiction; reflexivity.
Qed.

Theorem escape_safe : forall s, ok 0 (escape_str s) = true.
Proof.
  unfold escape_str. induction s as [|c t IH]; [reflexivity|]. rewrite esc_cons.
  cases_c c; subst; cbn; rewrite ?IH; try reflexivity.
  destruct (N.eqb_spec c cAMP); [contradiction|]. rewrite special_false by assumption. reflexivity.
Qed.

(* ---- escape_once ---- *)
Lemma prefixb_firstn p t : prefixb p t = true -> t = p ++ skipn (length p) t.
Proof.
  revert t; induction p as [|a p IH]; intros t H; simpl in *; [reflexivity|].
  destruct t as [|b t]; [discriminate|]. apply andb_prop in H as [E H]. apply N.eqb_eq in E; subst.
  simpl. f_equal. apply IH; assumption.
Qed.
Lemma nonspecial_prefix p : forallb (fun c => negb (special c)) p = true ->
  forall once t, esc once (length p) (p ++ t) = p ++ esc once 0 t.
Proof.
  induction p as [|a p IH]; intros H once t; simpl in *; [reflexivity|].
  apply andb_prop in H as [_ H]. f_equal. apply IH; assumption.
Qed.
Lemma ok_prefix p : forallb (fun c => negb (special c)) p = true ->
  forall t, ok (length p) (p ++ t) = ok 0 t.
Proof.
  induction p as [|a p IH]; intros H t; simpl in *; [reflexivity|].
  apply andb_prop in H as [Ha H]. rewrite Ha. simpl. apply IH; assumption.
Qed.
Lemma prefixb_app p u : prefixb p (p ++ u) = true.
Proof. induction p; simpl; [reflexivity|]. rewrite N.eqb_refl; assumption. Qed.

(* the five names, with their lengths, are exactly what nr_escaped recognises *)
Lemma nr_spec_some t n : nr_spec t = S n ->
  exists p, t = p ++ skipn (length p) t /\ length p = S n /\ forallb (fun c => negb (special c)) p = true /\
            (forall u, nr_spec (p ++ u) = S n) /\ In p [sLT; sGT; sAPOS; sQUOT; sAMP].
Proof.
  unfold nr_spec at 1.
  Ltac name_case P E := let H := fresh in intro H; inversion H; exists P;
    split; [apply (prefixb_firstn P _ E)|split; [reflexivity|split; [reflexivity|split; [intro u; reflexivity|simpl; auto 6]]]].
  destruct (prefixb sLT t) eqn:E1; [name_case sLT E1|].
  destruct (prefixb sGT t) eqn:E2; [name_case sGT E2|].
  destruct (prefixb sAPOS t) eqn:E3; [name_case sAPOS E3|].
  destruct (prefixb sQUOT t) eqn:E4; [name_case sQUOT E4|].
  destruct (prefixb sAMP t) eqn:E5; [name_case sAMP E5|].
  discriminate.
Qed.

Theorem escape_once_safe : forall s, ok 0 (escape_once_str s) = true.
Proof.
  unfold escape_once_str. intro s. remember (length s) as n eqn:Hn. revert s Hn.
  induction n as [n IHn] using lt_wf_ind. intros s Hn. destruct s as [|c t]; [reflexivity|]. rewrite esc_cons.
  assert (IHt : ok 0 (esc true 0 t) = true) by (apply (IHn (length t)); simpl in Hn; [lia|reflexivity]).
  cases_c c; subst; try (cbn; rewrite IHt; reflexivity).
  - destruct (nr_spec t) as [|k] eqn:N; [cbn; rewrite IHt; reflexivity|].
    destruct (nr_spec_some _ _ N) as [p [Et [Lp [Np [Nr _]]]]].
    cbn [ok]. rewrite N.eqb_refl.
    rewrite Et. rewrite <- Lp. rewrite (nonspecial_prefix p Np). rewrite Nr. rewrite <- Lp.
    rewrite (ok_prefix p Np). apply (IHn (length (skipn (length p) t))); [|reflexivity].
    simpl. rewrite skipn_length. lia.
  - destruct (N.eqb_spec c cAMP); [contradiction|]. cbn [ok]. destruct (N.eqb_spec c cAMP); [contradiction|].
    rewrite special_false by assumption. rewrite IHt. reflexivity.
Qed.

(* on safe strings escape_once is the identity, hence idempotence *)
Lemma once_id_on_ok : forall t k, ok k t = true -> esc true k t = t.
Proof.
  induction t as [|c t IH]; intros k H; [reflexivity|]. rewrite esc_cons. simpl in H.
  destruct k as [|k].
  - destruct (N.eqb_spec c cAMP) as [EA|EA].
    + subst c. cbn -[nr_spec]. destruct (nr_spec t) as [|n] eqn:N; [discriminate|]. f_equal. apply IH; assumption.
    + apply andb_prop in H as [Hs H]. unfold special in Hs.
      destruct (N.eqb_spec c cLT), (N.eqb_spec c cGT), (N.eqb_spec c cQUOT), (N.eqb_spec c cAPOS), (N.eqb_spec c cAMP);
        try discriminate; try contradiction. f_equal. apply IH; assumption.
  - apply andb_prop in H as [_ H]. f_equal. apply IH; assumption.
Qed.
Theorem escape_once_idem : forall s, escape_once_str (escape_once_str s) = escape_once_str s.
Proof. intro s. unfold escape_once_str at 1. apply once_id_on_ok. apply escape_once_safe. Qed.

(* escape_once leaves an existing entity untouched *)
Theorem escape_once_keeps_entities : forall p u, In p [sLT; sGT; sAPOS; sQUOT; sAMP] ->
  escape_once_str (cAMP :: p ++ u) = cAMP :: p ++ escape_once_str u.
Proof.
  intros p u Hin. unfold escape_once_str. rewrite esc_cons.
  assert (Hn : nr_spec (p ++ u) = length p /\ forallb (fun c => negb (special c)) p = true).
  { simpl in Hin. destruct Hin as [<-|[<-|[<-|[<-|[<-|[]]]]]]; split; reflexivity. }
  destruct Hn as [Hn Hp]. cbn -[nr_spec esc]. rewrite Hn.
  destruct (length p) as [|n] eqn:L; [destruct p; [simpl in Hin; intuition discriminate|discriminate]|].
  rewrite <- L. rewrite (nonspecial_prefix p Hp). reflexivity.
Qed.
(* and without the entity test every '&' is escaped: escape is not idempotent, escape_once is *)
Example escape_vs_once :
  escape_str (cAMP :: sAMP) = cAMP :: sAMP ++ sAMP /\ escape_once_str (cAMP :: sAMP) = cAMP :: sAMP.
Proof. split; reflexivity. Qed.

(* ================= url_encode / url_decode ================= *)
From Coq Require Import ZifyN ZifyNat ZifyBool.
From LV Require Import Utf8Proofs.
Ltac Zify.zify_post_hook ::= Z.div_mod_to_equations.

Definition unreserved (b : N) : bool := is_alnum b || N.eqb b 45 || N.eqb b 46 || N.eqb b 95.
Lemma in_encode_set_spec b : in_encode_set b = (128 <=? b)%N || negb (unreserved b).
Proof.
  unfold in_encode_set, unreserved. destruct (128 <=? b)%N eqn:E; [reflexivity|].
  change (str_eqb url_base_set k_NON_ALPHANUMERIC) with true. cbn [url_set_edits fold_left fst snd negb orb].
  rewrite (N.eqb_sym 45 b), (N.eqb_sym 46 b), (N.eqb_sym 95 b).
  destruct (N.eqb_spec b 45) as [->|?]; [reflexivity|]. destruct (N.eqb_spec b 46) as [->|?]; [reflexivity|].
  destruct (N.eqb_spec b 95) as [->|?]; [reflexivity|]. destruct (is_alnum b); reflexivity.
Qed.

Definition is_upper_hex (c : char) : bool := ((48 <=? c) && (c <=? 57) || (65 <=? c) && (c <=? 70))%N.
(* well-formed output: unreserved characters and %XY with upper-case hex digits only *)
Fixpoint pct_wf (s : str) : bool :=
  match s with
  | [] => true
  | c :: t =>
      if N.eqb c 37 then
        match t with
        | h :: l :: t' => is_upper_hex h && is_upper_hex l && pct_wf t'
        | _ => false
        end
      else unreserved c && pct_wf t
  end.
Lemma hex_digit_upper n : (n < 16)%N -> is_upper_hex (hex_digit n) = true.
Proof. intro H. unfold is_upper_hex, hex_digit. destruct (N.ltb_spec n 10); lia. Qed.
Lemma hex_val_digit n : (n < 16)%N -> hex_val (hex_digit n) = Some n.
Proof.
  intro H. unfold hex_val, hex_digit. destruct (N.ltb_spec n 10).
  - replace ((48 <=? 48 + n) && (48 + n <=? 57))%N with true by lia. f_equal. lia.
  - replace ((48 <=? 55 + n) && (55 + n <=? 57))%N with false by lia.
    replace ((65 <=? 55 + n) && (55 + n <=? 70))%N with true by lia. f_equal. lia.
Qed.
Lemma unreserved_not_pct b : unreserved b = true -> N.eqb b 37 = false.
Proof. unfold unreserved, is_alnum. intro H. destruct (N.eqb_spec b 37) as [->|?]; [discriminate|reflexivity]. Qed.

Lemma pct_wf_byte b r : (b < 256)%N -> pct_wf (pct_byte b ++ r) = pct_wf r.
Proof.
  intro H. unfold pct_byte. rewrite in_encode_set_spec.
  destruct ((128 <=? b)%N || negb (unreserved b)) eqn:E.
  - cbn [app pct_wf N.eqb Pos.eqb]. rewrite !hex_digit_upper by lia. reflexivity.
  - apply orb_false_iff in E as [_ E]. apply negb_false_iff in E. cbn [app pct_wf].
    rewrite (unreserved_not_pct b E), E. reflexivity.
Qed.
Lemma pct_decode_byte b r : (b < 256)%N -> pct_decode (pct_byte b ++ r) = b :: pct_decode r.
Proof.
  intro H. unfold pct_byte. rewrite in_encode_set_spec.
  destruct ((128 <=? b)%N || negb (unreserved b)) eqn:E.
  - cbn [app pct_decode N.eqb Pos.eqb]. rewrite !hex_val_digit by lia. f_equal. lia.
  - apply orb_false_iff in E as [_ E]. apply negb_false_iff in E. cbn [app pct_decode].
    rewrite (unreserved_not_pct b E). reflexivity.
Qed.
Lemma encode_char_bytes c : valid_char c = true -> Forall (fun b => (b < 256)%N) (encode_char c).
Proof.
  intro V. unfold valid_char in V. assert (c < 1114112)%N by lia. unfold encode_char.
  destruct (N.ltb_spec c 128); [repeat constructor; lia|].
  destruct (N.ltb_spec c 2048); [repeat constructor; lia|].
  destruct (N.ltb_spec c 65536); repeat constructor; lia.
Qed.
Lemma encode_bytes s : forallb valid_char s = true -> Forall (fun b => (b < 256)%N) (encode s).
Proof.
  induction s as [|c s IH]; simpl; intro V; [constructor|]. apply andb_prop in V as [Vc Vs].
  apply Forall_app; split; [apply encode_char_bytes; assumption|auto].
Qed.

Theorem url_encode_alphabet s : forallb valid_char s = true -> pct_wf (url_encode_str s) = true.
Proof.
  intro V. unfold url_encode_str. pose proof (encode_bytes s V) as B.
  induction B as [|b bs Hb B IH]; [reflexivity|]. simpl flat_map. rewrite pct_wf_byte by assumption. exact IH.
Qed.
Lemma pct_decode_encode bs : Forall (fun b => (b < 256)%N) bs -> pct_decode (flat_map pct_byte bs) = bs.
Proof. induction 1 as [|b bs Hb B IH]; [reflexivity|]. simpl flat_map. rewrite pct_decode_byte by assumption. f_equal; exact IH. Qed.

(* the output of url_encode is ASCII without '+': replacing '+' and re-encoding are identities on it *)
Definition plain_ascii (c : char) : bool := (c <? 128)%N && negb (N.eqb c 43).
Lemma pct_byte_plain b : (b < 256)%N -> forallb plain_ascii (pct_byte b) = true.
Proof.
  intro H. unfold pct_byte. rewrite in_encode_set_spec.
  destruct ((128 <=? b)%N || negb (unreserved b)) eqn:E.
  - cbn [forallb]. unfold plain_ascii, hex_digit.
    destruct (N.ltb_spec (b / 16) 10), (N.ltb_spec (b mod 16) 10); lia.
  - apply orb_false_iff in E as [E1 E]. apply negb_false_iff in E. cbn [forallb]. unfold plain_ascii.
    unfold unreserved, is_alnum in E. destruct (N.eqb_spec b 43) as [->|?]; [discriminate|]. lia.
Qed.
Lemma url_encode_plain s : forallb valid_char s = true -> forallb plain_ascii (url_encode_str s) = true.
Proof.
  intro V. unfold url_encode_str. pose proof (encode_bytes s V) as B.
  induction B as [|b bs Hb B IH]; [reflexivity|]. simpl flat_map. rewrite forallb_app, pct_byte_plain by assumption. exact IH.
Qed.
Lemma replace_plain e : forallb plain_ascii e = true -> replace_char 43%N [32%N] e = e.
Proof.
  induction e as [|c e IH]; simpl; intro H; [reflexivity|]. apply andb_prop in H as [Hc He].
  unfold plain_ascii in Hc. destruct (N.eqb_spec c 43); [simpl in Hc; rewrite andb_false_r in Hc; discriminate|].
  simpl. f_equal. auto.
Qed.
Lemma encode_plain e : forallb plain_ascii e = true -> encode e = e.
Proof.
  induction e as [|c e IH]; simpl; intro H; [reflexivity|]. apply andb_prop in H as [Hc He].
  unfold plain_ascii in Hc. unfold encode_char. destruct (N.ltb_spec c 128); [|simpl in Hc; discriminate].
  simpl. f_equal. auto.
Qed.

Theorem url_decode_encode s : forallb valid_char s = true -> url_decode_str (url_encode_str s) = Some s.
Proof.
  intro V. unfold url_decode_str. cbn [url_decode_replace fst snd].
  pose proof (url_encode_plain s V) as P.
  rewrite (replace_plain _ P), (encode_plain _ P). unfold url_encode_str.
  rewrite pct_decode_encode by (apply encode_bytes; exact V). apply decode_encode; exact V.
Qed.

(* no input makes an html/url filter crash: failures are error values *)
Theorem html_filter_total O f v : (exists r, html_filter O f v = Ok r) \/ (exists c, html_filter O f v = Err c).
Proof.
  destruct f; simpl; try (destruct v; left; eexists; reflexivity).
  destruct v; try (left; eexists; reflexivity);
    match goal with |- context [url_decode_str ?x] => destruct (url_decode_str x) end;
    (left; eexists; reflexivity) || (right; eexists; reflexivity).
Qed.

(* ================= strip_html: the output holds no complete <...> tag ================= *)
Definition cL : char := 60%N. Definition cG : char := 62%N.
Fixpoint no_tag (s : str) : bool :=
  match s with
  | [] => true
  | c :: t => (if N.eqb c cL then negb (memb_c cG t) else true) && no_tag t
  end.

Lemma lower_eq_lt c : N.eqb (lower c) 60%N = N.eqb c 60%N.
Proof.
  unfold lower. destruct ((65 <=? c) && (c <=? 90))%N eqn:E; [lia|].
  destruct (N.eqb_spec c 383) as [->|?]; [reflexivity|]. destruct (N.eqb_spec c 8490) as [->|?]; reflexivity.
Qed.
Lemma lower_eq_gt c : N.eqb (lower c) 62%N = N.eqb c 62%N.
Proof.
  unfold lower. destruct ((65 <=? c) && (c <=? 90))%N eqn:E; [lia|].
  destruct (N.eqb_spec c 383) as [->|?]; [reflexivity|]. destruct (N.eqb_spec c 8490) as [->|?]; reflexivity.
Qed.
Lemma prefix_lt c t : prefix_ci [cL] (c :: t) = N.eqb c cL.
Proof. unfold cL. cbn [prefix_ci]. unfold ci_eqb. change (lower 60%N) with 60%N. rewrite N.eqb_sym, lower_eq_lt, andb_true_r. reflexivity. Qed.
Lemma prefix_gt c t : prefix_ci [cG] (c :: t) = N.eqb c cG.
Proof. unfold cG. cbn [prefix_ci]. unfold ci_eqb. change (lower 62%N) with 62%N. rewrite N.eqb_sym, lower_eq_gt, andb_true_r. reflexivity. Qed.
Lemma occurs_gt t : occurs_ci [cG] t = memb_c cG t.
Proof.
  induction t as [|c t IH]; [reflexivity|]. cbn [occurs_ci]. rewrite prefix_gt, IH. unfold memb_c. cbn [existsb].
  rewrite (N.eqb_sym cG c). reflexivity.
Qed.

(* the scanners only delete characters *)
Lemma strip_subset op cl : forall s m x, In x (strip_between op cl m s) -> In x s
with strip_open_subset op cl : forall s n x, In x (strip_open op cl n s) -> In x s.
Proof.
  - induction s as [|c t IH]; intros m x H; [exact H|]. cbn [strip_between] in H.
    destruct m as [| |[|k]].
    + destruct (prefix_ci op (c :: t) && occurs_ci cl (skipn (length op) (c :: t))).
      * right. destruct (length op) as [|[|k]]; eauto.
      * destruct H as [->|H]; [left; reflexivity|right; eauto].
    + right. destruct (prefix_ci cl (c :: t)); eauto.
    + destruct H as [->|H]; [left; reflexivity|right; eauto].
    + right. eauto.
  - induction s as [|c t IH]; intros n x H; [exact H|]. cbn [strip_open] in H. right.
    destruct n as [|[|k]]; eauto.
Qed.

Lemma memb_not_in x s : memb_c x s = false -> ~ In x s.
Proof.
  unfold memb_c. intros H Hin. assert (existsb (N.eqb x) s = true) by (apply existsb_exists; exists x; split; [assumption|apply N.eqb_refl]).
  congruence.
Qed.
Lemma not_in_memb x s : ~ In x s -> memb_c x s = false.
Proof.
  intro H. unfold memb_c. destruct (existsb (N.eqb x) s) eqn:E; [|reflexivity].
  apply existsb_exists in E as [y [Hy E]]. apply N.eqb_eq in E. subst. contradiction.
Qed.

Lemma last_pass_no_tag : forall s,
  no_tag (strip_between [cL] [cG] Normal s) = true /\ no_tag (strip_between [cL] [cG] Skipping s) = true.
Proof.
  induction s as [|c t [IHn IHs]]; [split; reflexivity|]. split.
  - cbn [strip_between length skipn]. rewrite prefix_lt, occurs_gt.
    destruct (N.eqb c cL && memb_c cG t) eqn:E; [exact IHs|].
    cbn [no_tag]. rewrite IHn, andb_true_r.
    destruct (N.eqb c cL) eqn:Ec; [|reflexivity]. simpl in E.
    apply negb_true_iff, not_in_memb. intro Hin. apply strip_subset in Hin. revert Hin. apply memb_not_in; exact E.
  - cbn [strip_between length]. rewrite prefix_gt. destruct (N.eqb c cG); assumption.
Qed.
Theorem strip_html_no_tag s : no_tag (strip_html_str s) = true.
Proof. unfold strip_html_str. apply last_pass_no_tag. Qed.
(* no_tag means what it says: there is no '<' with a '>' anywhere after it *)
Theorem no_tag_spec s : no_tag s = true -> forall a b, s = a ++ cL :: b -> ~ In cG b.
Proof.
  intros H a. revert s H. induction a as [|x a IH]; intros s H b E; subst s.
  - cbn [app no_tag] in H. rewrite N.eqb_refl in H. apply andb_prop in H as [H _]. apply memb_not_in, negb_true_iff; exact H.
  - cbn [app no_tag] in H. apply andb_prop in H as [_ H]. eapply IH; [exact H|reflexivity].
Qed.
