(* Proofs about model/Filters_seq.v — the array part (property C14). *)
From Coq Require Import Permutation Sorted.
From LV Require Import Base Value Filters_seq BaseLemmas.

Section Sort.
Context {A : Type} (cmp : A -> A -> comparison).
Notation ins := (insert_sorted cmp).
Notation ssort := (stable_sort cmp).
Notation le := (fun a b => leq cmp a b = true).

Lemma insert_perm x l : Permutation (ins x l) (x :: l).
Proof.
  induction l as [|h t IH]; simpl; [reflexivity|]. destruct (cmp x h); try reflexivity.
  rewrite IH. apply perm_swap.
Qed.
(* sort returns a permutation of its input — for any comparator *)
Theorem sort_perm l : Permutation (ssort l) l.
Proof. induction l as [|h t IH]; simpl; [reflexivity|]. rewrite insert_perm. constructor. exact IH. Qed.

(* what slice::sort_by requires of the comparator, on the elements being sorted *)
Record total_preorder (P : A -> Prop) : Prop := {
  tp_anti : forall a b, P a -> P b -> cmp b a = CompOpp (cmp a b);
  tp_trans : forall a b c, P a -> P b -> P c -> le a b -> le b c -> le a c;
}.
Lemma tp_total P : total_preorder P -> forall a b, P a -> P b -> le a b \/ le b a.
Proof.
  intros T a b Pa Pb. unfold leq. rewrite (tp_anti P T a b Pa Pb). destruct (cmp a b); simpl; auto.
Qed.
Lemma tp_refl P : total_preorder P -> forall a, P a -> cmp a a = Eq.
Proof. intros T a Pa. pose proof (tp_anti P T a a Pa Pa) as H. destruct (cmp a a); simpl in H; congruence. Qed.

(* the executable check implies the property on the list's elements *)
Lemma total_preorder_on_sound l : total_preorder_on cmp l = true -> total_preorder (fun x => In x l).
Proof.
  unfold total_preorder_on. intro H. rewrite forallb_forall in H. split.
  - intros a b Ha Hb. specialize (H a Ha). rewrite forallb_forall in H. specialize (H b Hb).
    apply andb_prop in H as [H _]. destruct (cmp a b), (cmp b a); simpl; try reflexivity; discriminate.
  - intros a b c Ha Hb Hc Hab Hbc. specialize (H a Ha). rewrite forallb_forall in H. specialize (H b Hb).
    apply andb_prop in H as [_ H]. rewrite forallb_forall in H. specialize (H c Hc).
    rewrite Hab, Hbc in H. simpl in H. exact H.
Qed.

Section WithOrder.
Variable P : A -> Prop.
Hypothesis T : total_preorder P.

Lemma insert_sorted_sorted x l : P x -> Forall P l -> StronglySorted le l -> StronglySorted le (ins x l).
Proof.
  intros Px Pl. induction 1 as [|h t Hs IH Hall]; simpl; [repeat constructor|].
  inversion Pl as [|? ? Ph Pt]; subst.
  destruct (cmp x h) eqn:E.
  - constructor; [constructor; assumption|]. constructor; [unfold leq; rewrite E; reflexivity|].
    rewrite Forall_forall in *. intros y Hy. apply (tp_trans P T x h y); auto; unfold leq; rewrite E; reflexivity.
  - constructor; [constructor; assumption|]. constructor; [unfold leq; rewrite E; reflexivity|].
    rewrite Forall_forall in *. intros y Hy. apply (tp_trans P T x h y); auto; unfold leq; rewrite E; reflexivity.
  - constructor; [apply IH; assumption|].
    rewrite Forall_forall in *. intros y Hy. apply (Permutation_in _ (insert_perm x t)) in Hy. destruct Hy as [<-|Hy]; [|auto].
    unfold leq. rewrite (tp_anti P T x h Px Ph), E. reflexivity.
Qed.
Lemma sort_forall l : Forall P l -> Forall P (ssort l).
Proof. intro H. rewrite Forall_forall in *. intros x Hx. apply H. eapply Permutation_in; [apply sort_perm|exact Hx]. Qed.
(* the result is non-decreasing *)
Theorem sort_sorted l : Forall P l -> StronglySorted le (ssort l).
Proof.
  induction l as [|h t IH]; intro H; simpl; [constructor|]. inversion H; subst.
  apply insert_sorted_sorted; auto using sort_forall.
Qed.
(* a sorted list is left alone: sort is idempotent *)
Lemma sort_id_on_sorted l : Forall P l -> StronglySorted le l -> ssort l = l.
Proof.
  intros Pl. induction 1 as [|h t Hs IH Hall]; [reflexivity|]. inversion Pl; subst. simpl. rewrite IH by assumption.
  destruct t as [|k t']; [reflexivity|]. simpl. inversion Hall as [|? ? Hk _]; subst. unfold leq in Hk.
  destruct (cmp h k); try reflexivity. discriminate.
Qed.
Theorem sort_idempotent l : Forall P l -> ssort (ssort l) = ssort l.
Proof. intro H. apply sort_id_on_sorted; [apply sort_forall; exact H|apply sort_sorted; exact H]. Qed.

(* stability: the elements equivalent to any given one keep their relative order *)
Definition equiv_to (x y : A) : bool := match cmp y x with Eq => true | _ => false end.
Lemma insert_filter x y l : P x -> P y -> Forall P l -> StronglySorted le l ->
  filter (equiv_to x) (ins y l) = filter (equiv_to x) (y :: l).
Proof.
  intros Px Py Pl. induction 1 as [|h t Hs IH Hall]; [reflexivity|]. inversion Pl as [|? ? Ph Pt]; subst.
  cbn [insert_sorted]. destruct (cmp y h) eqn:E; try reflexivity.
  (* y > h: y moves behind h; if both were equivalent to x they would be equivalent to each other *)
  cbn [filter]. rewrite IH by assumption. cbn [filter].
  destruct (equiv_to x h) eqn:Eh, (equiv_to x y) eqn:Ey; try reflexivity.
  exfalso. unfold equiv_to in Eh, Ey.
  destruct (cmp h x) eqn:Ehx; try discriminate. destruct (cmp y x) eqn:Eyx; try discriminate.
  assert (L1 : le y x) by (unfold leq; rewrite Eyx; reflexivity).
  assert (L2 : le x h) by (unfold leq; rewrite (tp_anti P T h x Ph Px), Ehx; reflexivity).
  pose proof (tp_trans P T y x h Py Px Ph L1 L2) as L. unfold leq in L. rewrite E in L. discriminate.
Qed.
Theorem sort_stable x l : P x -> Forall P l -> filter (equiv_to x) (ssort l) = filter (equiv_to x) l.
Proof.
  intros Px. induction l as [|h t IH]; intro H; [reflexivity|]. inversion H; subst. simpl stable_sort.
  rewrite insert_filter; auto using sort_forall, sort_sorted. cbn [filter]. rewrite IH by assumption. reflexivity.
Qed.
End WithOrder.

(* sort_by: whenever the comparator is a total preorder on the input the result is specified *)
Theorem sort_by_spec l : total_preorder_on cmp l = true ->
  sort_by cmp l = Ok (ssort l) /\ Permutation (ssort l) l /\ StronglySorted le (ssort l) /\ ssort (ssort l) = ssort l.
Proof.
  intro H. pose proof (total_preorder_on_sound l H) as T.
  assert (F : Forall (fun x => In x l) l) by (apply Forall_forall; auto).
  unfold sort_by. rewrite H. repeat split; [apply sort_perm|apply (sort_sorted _ T); exact F|apply (sort_idempotent _ T); exact F].
Qed.
(* and otherwise it is outside what slice::sort_by specifies: the known finding *)
Theorem sort_by_unspecified_iff l : (exists s, sort_by cmp l = Panic s) <-> total_preorder_on cmp l = false.
Proof. unfold sort_by. destruct (total_preorder_on cmp l); split; intro H; try discriminate; eauto. destruct H; discriminate. Qed.
End Sort.

(* ---- nil sorts last ---- *)
Lemma nil_safe_nil_last b : is_nil b = false -> cmp_or_eq (nil_safe_compare VNil b) = Gt /\ cmp_or_eq (nil_safe_compare b VNil) = Lt.
Proof. intro H. unfold nil_safe_compare. simpl. rewrite H. simpl. destruct b; simpl in *; try discriminate; auto. Qed.

(* ---- uniq ---- *)
Lemma uniq_go_subseq seen l : forall x, In x (uniq_go seen l) -> In x l.
Proof.
  revert seen; induction l as [|h t IH]; intros seen x H; simpl in *; [exact H|].
  destruct (existsb (fun v => value_eq v h) seen); [right; eauto|]. destruct H as [->|H]; [left; reflexivity|right; eauto].
Qed.
(* every kept element differs from everything seen before it, in particular from the earlier kept ones *)
Theorem uniq_kept_are_new l : forall seen, 
  forall pre x post, uniq_go seen l = pre ++ x :: post ->
  existsb (fun v => value_eq v x) (seen ++ pre) = false.
Proof.
  induction l as [|h t IH]; intros seen pre x post E; simpl in E; [destruct pre; discriminate|].
  destruct (existsb (fun v => value_eq v h) seen) eqn:S; [eapply IH; exact E|].
  destruct pre as [|p pre']; simpl in E; inversion E; subst.
  - rewrite app_nil_r. exact S.
  - specialize (IH (seen ++ [p]) pre' x post H1). rewrite <- app_assoc in IH. exact IH.
Qed.
(* every dropped element equals (value_eq) an element kept before it *)
Theorem uniq_dropped_have_witness l : forall seen x, In x l ->
  existsb (fun v => value_eq v x) (seen ++ uniq_go seen l) = true \/ In x (uniq_go seen l).
Proof.
  induction l as [|h t IH]; intros seen x Hin; [destruct Hin|]. simpl.
  destruct (existsb (fun v => value_eq v h) seen) eqn:S.
  - destruct Hin as [->|Hin]; [left; rewrite existsb_app, S; reflexivity|apply IH; exact Hin].
  - destruct Hin as [->|Hin]; [right; left; reflexivity|].
    destruct (IH (seen ++ [h]) x Hin) as [H|H]; [left; rewrite <- app_assoc in H; exact H|right; right; exact H].
Qed.

Section F.
Variable O : oracle.
Notation sf := (seq_filter O).
(* reverse: a permutation, the reversed list, an involution *)
Theorem reverse_spec l : sf QReverse (VArray l) [] = Ok (VArray (rev l)) /\ Permutation (rev l) l /\ rev (rev l) = l.
Proof. repeat split; [apply Permutation_sym, Permutation_rev|apply rev_involutive]. Qed.
Theorem compact_spec l : sf QCompact (VArray l) [] = Ok (VArray (filter (fun v => negb (is_nil v)) l)).
Proof. reflexivity. Qed.
Theorem concat_spec l m : sf QConcat (VArray l) [VArray m] = Ok (VArray (l ++ m)) /\ length (l ++ m) = length l + length m.
Proof. split; [reflexivity|apply app_length]. Qed.
Theorem map_spec l p : sf QMap (VArray l) [sstr p] =
  Ok (VArray (flat_map (fun v => match v with VObject kvs => match lookup p kvs with Some x => [x] | None => [] end | _ => [] end) l)).
Proof. reflexivity. Qed.
Theorem where_spec l p t : forallb is_object l = true -> sf QWhere (VArray l) [sstr p; t] =
  Ok (VArray (filter (fun v => match v with VObject kvs => match lookup p kvs with Some x => value_eq t x | None => false end | _ => false end) l)).
Proof. intro H. unfold seq_filter. cbn. rewrite H. reflexivity. Qed.
Theorem where_truthy_spec l p : forallb is_object l = true -> sf QWhere (VArray l) [sstr p] =
  Ok (VArray (filter (fun v => match v with VObject kvs => match lookup p kvs with Some x => truthy x | None => false end | _ => false end) l)).
Proof. intro H. unfold seq_filter. cbn. rewrite H. reflexivity. Qed.
Theorem uniq_spec l : sf QUniq (VArray l) [] = Ok (VArray (uniq_go [] l)).
Proof. reflexivity. Qed.
(* first / last / size agree with indexing *)
Theorem first_last_size l : sf QFirst (VArray l) [] = Ok (nth 0 l VNil) /\ sf QLast (VArray l) [] = Ok (nth (length l - 1) l VNil) /\
  sf QSize (VArray l) [] = Ok (VScalar (SInt (Z.of_nat (length l)))).
Proof.
  repeat split; simpl; [destruct l; reflexivity|].
  f_equal. destruct l as [|x l] using rev_ind; [reflexivity|]. rewrite rev_unit, app_length, app_nth2; simpl; [|lia].
  replace (length l + 1 - 1 - length l) with 0 by lia. reflexivity.
Qed.
Theorem slice_array l off len : (1 <= len)%Z -> sf QSlice (VArray l) [VScalar (SInt off); VScalar (SInt len)] = Ok (VArray (slice_list off len l)).
Proof. intro H. unfold seq_filter. cbn. destruct (Z.ltb_spec len 1); [lia|reflexivity]. Qed.
Theorem join_spec l sep : sf QJoin (VArray l) [sstr sep] = Ok (sstr (join_str sep (map (to_kstr O) l))).
Proof. reflexivity. Qed.
(* sort: specified exactly when the comparator is a total preorder on the input *)
Definition sort_cmp (a b : value) : comparison := cmp_or_eq (nil_safe_compare a b).
Theorem sort_filter_spec l : total_preorder_on sort_cmp l = true ->
  sf QSort (VArray l) [] = Ok (VArray (stable_sort sort_cmp l)).
Proof. intro H. unfold seq_filter. cbn. unfold sort_by. fold sort_cmp. rewrite H. reflexivity. Qed.
Theorem sort_filter_unspecified l : total_preorder_on sort_cmp l = false ->
  sf QSort (VArray l) [] = Panic site_sort_unspecified.
Proof. intro H. unfold seq_filter. cbn. unfold sort_by. fold sort_cmp. rewrite H. reflexivity. Qed.
End F.
