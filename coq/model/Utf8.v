(* Utf8.v — UTF-8 encoding of Unicode scalar values and strict decoding (what
   str::as_bytes and String::from_utf8 / decode_utf8 do). *)
From LV Require Export Base.

Definition byte := N.
Definition valid_char (c : char) : bool := ((c <? 55296) || ((57344 <=? c) && (c <? 1114112)))%N.

Definition encode_char (c : char) : list byte :=
  if (c <? 128)%N then [c]
  else if (c <? 2048)%N then [192 + c / 64; 128 + c mod 64]%N
  else if (c <? 65536)%N then [224 + c / 4096; 128 + (c / 64) mod 64; 128 + c mod 64]%N
  else [240 + c / 262144; 128 + (c / 4096) mod 64; 128 + (c / 64) mod 64; 128 + c mod 64]%N.
Definition encode (s : str) : list byte := flat_map encode_char s.

Definition is_cont (b : byte) : bool := ((128 <=? b) && (b <? 192))%N.
(* one scalar value from the front of a byte string; None when malformed (overlong forms,
   surrogates, values above U+10FFFF, stray or missing continuation bytes) *)
Definition decode_one (bs : list byte) : option (char * list byte) :=
  match bs with
  | [] => None
  | b0 :: r =>
      if (b0 <? 128)%N then Some (b0, r)
      else if (b0 <? 192)%N then None
      else if (b0 <? 224)%N then
        match r with
        | b1 :: r' => let c := ((b0 - 192) * 64 + (b1 - 128))%N in
                      if is_cont b1 && (128 <=? c)%N then Some (c, r') else None
        | _ => None end
      else if (b0 <? 240)%N then
        match r with
        | b1 :: b2 :: r' => let c := ((b0 - 224) * 4096 + (b1 - 128) * 64 + (b2 - 128))%N in
                            if is_cont b1 && is_cont b2 && (2048 <=? c)%N && valid_char c then Some (c, r') else None
        | _ => None end
      else if (b0 <? 248)%N then
        match r with
        | b1 :: b2 :: b3 :: r' =>
            let c := ((b0 - 240) * 262144 + (b1 - 128) * 4096 + (b2 - 128) * 64 + (b3 - 128))%N in
            if is_cont b1 && is_cont b2 && is_cont b3 && (65536 <=? c)%N && (c <? 1114112)%N then Some (c, r') else None
        | _ => None end
      else None
  end.
Fixpoint decode_fuel (fuel : nat) (bs : list byte) : option str :=
  match bs with
  | [] => Some []
  | _ => match fuel with
         | O => None
         | S f => match decode_one bs with
                  | Some (c, r) => match decode_fuel f r with Some s => Some (c :: s) | None => None end
                  | None => None
                  end
         end
  end.
Definition decode (bs : list byte) : option str := decode_fuel (length bs) bs.
