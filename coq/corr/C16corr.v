(* Correspondence checker for C16: one html/url filter applied to one string. *)
From LV Require Import Corr Filters_html.
Record c16case := mkC16 { c16_f : htmlf; c16_input : value; c16_expected : outcome value }.
Definition c16_check (c : c16case) : bool :=
  outcome_same value_same (outcome_of (html_filter no_oracle (c16_f c) (c16_input c))) (c16_expected c).
