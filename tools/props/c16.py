"""C16 — escape / escape_once / url_encode / url_decode / strip_html are safe and invertible."""
import itertools, json, random, re
from urllib.parse import unquote_to_bytes
from lv import C, R, S, P, val_ir

PROP = "C16"
TARGETS = ["props/C16.vo", "corr/C16corr.vo"]
HEADER = "From LV Require Import Corr Filters_html C16corr.\n"
CHECKER = "c16_check"
TRUSTED = [
    "model/Filters_html.v transcribes stdlib/filters/html.rs and url.rs; its entity table, escaped-character set, percent-encoding set and '+' replacement are gen/Consts.v, regenerated from /repo by tools/translate.py on every run",
    "modelled, not verified: the `regex` crate (leftmost-first, lazy quantifier, (?is) flags, simple case folding) as explicit scanners; the `percent-encoding` crate (AsciiSet, utf8_percent_encode, percent_decode); String::from_utf8 strictness as model/Utf8.v",
]
RULE = ("exhaustive strings over the entity alphabet (<=4 quick, <=5 thorough) for escape and escape_once, over the URL alphabet (<=4) for url_encode/url_decode, "
        "over the tag alphabet (<=4 quick, <=5 thorough) for strip_html, plus random longer strings; non-trivial = the output differs from the input")

ENT = ["<", ">", "&", '"', "'", ";", "#", "a", "l", "t", "m", "p", " ", "é", "3", "9", "q", "u", "o", "g"]
ENT_CORE = ENT[:14]
URL = ["%", "+", "2", "F", "f", " ", "/", "é", "\U0001F600", "C", "3", "A", "9", "-", "_", ".", "~"]
URL_CORE = URL[:9]
TAG = ["<", ">", "!", "-", "/", "s", "c", "r", "i", "p", "t", "a", "S", "y", "l", "e", "\n", "ſ"]
TAG_CORE = TAG[:12]
FCT = {"escape": "HEscape", "escape_once": "HEscapeOnce", "url_encode": "HUrlEncode", "url_decode": "HUrlDecode", "strip_html": "HStripHtml"}
SEP = "\n@@\n"


def all_strings(alpha, n):
    for k in range(n + 1):
        for t in itertools.product(alpha, repeat=k):
            yield "".join(t)


def gen(tier, seed):
    rnd = random.Random(seed)
    cases = []
    n_ent = 4 if tier == "quick" else 5
    for s in all_strings(ENT_CORE, n_ent):
        cases.append({"f": "escape", "s": s})
        cases.append({"f": "escape_once", "s": s})
    for s in all_strings(URL_CORE, 4):
        cases.append({"f": "url_encode", "s": s})
        cases.append({"f": "url_decode", "s": s})
    n_tag = 4 if tier == "quick" else 5
    for s in all_strings(TAG_CORE, n_tag):
        cases.append({"f": "strip_html", "s": s})
    # every ASCII character on its own and between letters, through every filter (character sets are per character)
    for cp in list(range(0, 128)) + [0x80, 0xa0, 0xff, 0x2028, 0xfffd, 0x10ffff]:
        for s in (chr(cp), "a" + chr(cp) + "b"):
            for f in FCT:
                cases.append({"f": f, "s": s})
    nrand = 4000 if tier == "quick" else 80000
    frag_ent = ["&amp;", "&lt;", "&gt;", "&quot;", "&#39;", "&amp", "&lt;;", "&#39", "&quot", "&", "&&", "&#", "&#3", "é&", "&é"] + ENT
    frag_url = ["%20", "%2B", "%2b", "%C3%A9", "%C3", "%A9", "%F0%9F%98%80", "%ED%A0%80", "%C0%80", "%FF", "%2", "%", "%%", "%G1", "+"] + URL
    frag_tag = ["<script>", "</script>", "<SCRIPT", "</ScRiPt>", "<style>", "</style>", "<!--", "-->", "<b>", "</b>", "<", ">", "<ſcript>", "</ſcript>", "\n", "x"] + TAG
    for _ in range(nrand):
        f = rnd.choice(list(FCT))
        frag = frag_ent if f in ("escape", "escape_once") else frag_url if f.startswith("url") else frag_tag
        s = "".join(rnd.choice(frag) for _ in range(rnd.randint(1, 12)))
        cases.append({"f": f, "s": s})
    for v in (["n"], ["i", "5"], ["b", True], ["a", [["s", "<a>"], ["s", "&"]]]):
        for f in FCT:
            cases.append({"f": f, "v": v, "s": None})
    for i, c in enumerate(cases):
        c["id"] = i
    dist = {"exhaustive": True, "entity_len": n_ent, "url_len": 4, "tag_len": n_tag, "random": nrand}
    for c in cases:
        dist[c["f"]] = dist.get(c["f"], 0) + 1
    return cases, dist


def request(c):
    f = c["f"]
    chain = {"escape_once": "escape_once | escape_once", "url_encode": "url_encode | url_decode"}.get(f)
    tpl = "{{ s | %s | lv_dump }}" % f + ((SEP + "{{ s | %s | lv_dump }}" % chain) if chain else "")
    return {"id": c["id"], "kind": "render", "tpl": tpl, "data": [["s", c.get("v") or ["s", c["s"]]]]}


def observed(resp):
    if "ok" in resp:
        parts = resp["ok"].split(SEP)
        return ("ok", [json.loads(p) for p in parts])
    if "panic" in resp:
        return ("panic", resp["panic"])
    return ("err", resp.get("err") or resp.get("parse_err"))


MODEL_HANDLES_PANIC = True


def case_ir(c, resp):
    kind, v = observed(resp)
    exp = C("OOk", val_ir(v[0])) if kind == "ok" else C("OErr") if kind == "err" else C("OPanic")
    return R("mkC16", C(FCT[c["f"]]), val_ir(c.get("v") or ["s", c["s"]]), exp)


ENTS = {"&lt;": "<", "&gt;": ">", "&amp;": "&", "&quot;": '"', "&#39;": "'"}
ENT_RE = re.compile("&lt;|&gt;|&amp;|&quot;|&#39;")


def safe(out):
    """none of < > & \" ' except as part of one of the five entities"""
    rest = ENT_RE.sub("", out)
    return not re.search("[<>&\"']", rest)


def spec_check(c, resp):
    kind, got = observed(resp)
    inp = {"filter": c["f"], "input": c.get("v") or c["s"]}
    if kind == "panic":
        return {"what": "filter panicked", "input": inp, "observed": got}
    if c["s"] is None:
        return None
    s, f = c["s"], c["f"]
    if f == "url_decode":
        raw = unquote_to_bytes(s.replace("+", " "))
        try:
            want = raw.decode("utf-8")
        except UnicodeDecodeError:
            return None if kind == "err" else {"what": "url_decode accepted bytes that are not valid UTF-8", "input": inp, "observed": got}
        ok = kind == "ok" and got[0] == ["s", want]
        return None if ok else {"what": "url_decode does not invert percent-encoding", "input": inp, "observed": got, "expected": want}
    if kind != "ok" or got[0][0] != "s":
        return {"what": "filter failed on a string", "input": inp, "observed": got}
    out = got[0][1]
    if f == "escape":
        if not safe(out):
            return {"what": "escape output contains a bare special character", "input": inp, "observed": out}
        if ENT_RE.sub(lambda m: ENTS[m.group(0)], out) != s:
            return {"what": "replacing the entities back does not yield the input", "input": inp, "observed": out}
    elif f == "escape_once":
        if not safe(out):
            return {"what": "escape_once output contains a bare special character", "input": inp, "observed": out}
        want = re.sub(r"&(?!lt;|gt;|amp;|quot;|#39;)", "&amp;", s).replace("<", "&lt;").replace(">", "&gt;").replace('"', "&quot;").replace("'", "&#39;")
        if out != want:
            return {"what": "escape_once touched an existing entity or missed a character", "input": inp, "observed": out, "expected": want}
        if got[1] != got[0]:
            return {"what": "escape_once applied twice differs from once", "input": inp, "observed": got}
    elif f == "url_encode":
        if not re.fullmatch(r"(?:[A-Za-z0-9\-._]|%[0-9A-F]{2})*", out):
            return {"what": "url_encode emitted a character outside letters, digits, '-._' and %XX", "input": inp, "observed": out}
        if got[1] != ["s", s]:
            return {"what": "url_decode does not invert url_encode", "input": inp, "observed": got}
    elif f == "strip_html":
        i = out.find("<")
        if i >= 0 and ">" in out[i:]:
            return {"what": "strip_html output contains a complete <...> tag", "input": inp, "observed": out}
    return None


def nontrivial(c, resp):
    kind, got = observed(resp)
    return kind == "err" or (kind == "ok" and c["s"] is not None and got[0] != ["s", c["s"]])
