(* C03 — Literal text is preserved; trim markers, raw and comment do exactly their job.
   Statements only; proofs in proofs/PegProofs.v, about coq/gen/Grammar.v — the grammar as generated
   from crates/core/src/parser/grammar.pest on this run — under the pest semantics of model/Peg.v.

   PARTIAL.  Proved, for the generated grammar and every text:
     - which characters are whitespace to it, and that the whitespace star — the only thing a trim
       marker on a delimiter adds to it (the start rules put a whitespace star before the marked
       opening delimiter, the end rules after the marked closing one) and what separates a
       delimiter from its content — consumes exactly the maximal run of space, tab, LF, CR and
       nothing else, in every atomicity mode in which the grammar uses it;
     - a text that contains no brace is exactly ONE Raw element spanning all of it followed by EOI
       (no_markup_is_one_raw): with parser.rs's `Raw -> Text(span)` and Text::render_to's plain
       write this is "a template without markup renders to itself"; the empty text has no element.
     - the delimiter rules and the Raw rule, exactly, on every text (RawProofs): an opening delimiter is
       `whitespace* {%-` (resp. `{{-`) or else the bare `{%` (`{{`); a closing delimiter is `-%}` (`-}}`)
       TOGETHER WITH the maximal whitespace run after it (right trim) or else the bare `%}` (`}}`); Raw is
       the longest prefix in which no position starts markup (raw_rule_exact, raw_len), where a
       whitespace run in front of a trim-marked opener is markup — so it is NOT part of the text element
       (left_trim_excludes_whitespace) — and in front of a plain opener it is text
       (plain_opener_keeps_whitespace).
     - nothing of the source is lost or duplicated by the lexing: for every text the parse finishes with top-level
       elements (Expression / Tag / Raw / InvalidLiquid) that tile it from the first character to the last, and the
       concatenation of their texts is the text (source_is_the_concatenation_of_its_elements, elements_tile_the_text).
   Not proved (decided by the structural oracle and the pair-stream correspondence of
   tools/props/c03.py on every generated template): the same for texts with stray single braces
   (a brace not followed by a brace or percent sign) as a one-element statement, the span recovery of raw blocks and the discarding of comments. *)
From LV Require Import Base Peg PegTree Grammar PegProofs RawProofs TreeProofs TreeShape.

Theorem whitespace_rule : forall fuel la s pos, 6 <= fuel ->
  ev liquid_grammar liquid_ws fuel Atomic la (PRef r_WHITESPACE) s pos =
  Some (match s with
        | c :: r => if (c =? 13)%N then match r with 10%N :: r' => Some (r', pos + 2, []) | _ => Some (r, pos + 1, []) end
                    else if is_ws c then Some (r, pos + 1, []) else None
        | [] => None
        end).
Proof. exact PegProofs.ws_rule_one. Qed.
Theorem whitespace_run_exact : forall la s pos fuel, 8 + length s <= fuel ->
  ev liquid_grammar liquid_ws fuel Atomic la (PStar (PRef r_WHITESPACE)) s pos =
  Some (Some (drop_ws s, pos + count_ws s, [])).
Proof. exact PegProofs.ws_star_exact. Qed.
(* drop_ws removes a prefix made of whitespace only, and what remains does not start with whitespace *)
Theorem drop_ws_is_the_maximal_run : forall s,
  exists w, s = w ++ drop_ws s /\ forallb is_ws w = true /\ ws_head (drop_ws s) = false /\ length w = count_ws s.
Proof. exact PegProofs.drop_ws_spec. Qed.

Theorem whitespace_run_exact_any_mode : forall at_ la s pos fuel, at_ <> NonAtomic -> 8 + length s <= fuel ->
  ev liquid_grammar liquid_ws fuel at_ la (PStar (PRef r_WHITESPACE)) s pos =
  Some (Some (drop_ws s, pos + count_ws s, [])).
Proof. exact PegProofs.ws_star_any. Qed.
(* a template without markup: one Raw element covering the whole text, then EOI *)
Theorem no_markup_is_one_raw : forall c t fuel, no_brace (c :: t) = true -> 40 + length t <= fuel ->
  parse liquid_grammar liquid_ws fuel r_LaxLiquidFile (c :: t) =
  Some (Some ([], S (length t),
              [mkTok r_LaxLiquidFile 0 (S (length t)); mkTok r_Raw 0 (S (length t)); mkTok eoi_id (S (length t)) (S (length t))])).
Proof. exact PegProofs.no_markup_is_one_raw. Qed.
Theorem empty_text_is_no_element : forall fuel, 40 <= fuel ->
  parse liquid_grammar liquid_ws fuel r_LaxLiquidFile [] = Some (Some ([], 0, [mkTok r_LaxLiquidFile 0 0; mkTok eoi_id 0 0])).
Proof. exact PegProofs.empty_text_is_no_element. Qed.
(* a start delimiter cannot match where no brace follows (so neither an output tag nor a tag can start) *)
Theorem no_delimiter_without_brace : forall which at_ la s pos fuel, which = r_TagStart \/ which = r_ExpressionStart ->
  at_ <> NonAtomic -> no_brace s = true -> 12 + length s <= fuel ->
  ev liquid_grammar liquid_ws fuel at_ la (PRef which) s pos = Some None.
Proof. exact PegProofs.start_fails. Qed.

(* non-vacuity: "a \t\r\n{{- 1 -}}\n b" lexes to Raw "a", the output tag from 1 to 15, Raw "b": both
   whitespace runs, tab and CRLF included, belong to the trimmed tag *)
(* the delimiters, exactly *)
Theorem opening_delimiter_exact : forall which plain trim at_ la s pos fuel,
  (which = r_TagStart /\ plain = open_tag /\ trim = open_tag_trim) \/ (which = r_ExpressionStart /\ plain = open_exp /\ trim = open_exp_trim) ->
  at_ <> NonAtomic -> 12 + length s <= fuel ->
  ev liquid_grammar liquid_ws fuel at_ la (PRef which) s pos = Some (start_spec plain trim s pos).
Proof. exact RawProofs.start_exact. Qed.
Theorem closing_delimiter_exact : forall which plain trim at_ la s pos fuel,
  (which = r_TagEnd /\ plain = close_tag /\ trim = close_tag_trim) \/ (which = r_ExpressionEnd /\ plain = close_exp /\ trim = close_exp_trim) ->
  at_ <> NonAtomic -> 14 + length s <= fuel ->
  ev liquid_grammar liquid_ws fuel at_ la (PRef which) s pos = Some (end_spec plain trim s pos).
Proof. exact RawProofs.end_exact. Qed.
(* the text element, exactly: up to the first position where markup starts *)
Theorem raw_rule_exact : forall s pos fuel, 20 + length s <= fuel ->
  ev liquid_grammar liquid_ws fuel Compound false (PRef r_Raw) s pos =
  Some (match raw_len s with 0 => None | n => Some (skipn n s, pos + n, [mkTok r_Raw pos (pos + n)]) end).
Proof. exact RawProofs.raw_rule_exact. Qed.
Theorem left_trim_excludes_whitespace : forall t w rest,
  no_brace t = true -> ends_nonws t = true -> all_ws w = true -> opener_trim rest = true ->
  raw_len (t ++ w ++ rest) = length t.
Proof. exact RawProofs.left_trim_excludes_whitespace. Qed.
Theorem plain_opener_keeps_whitespace : forall t w rest,
  no_brace t = true -> all_ws w = true -> opener rest = true -> opener_trim rest = false ->
  raw_len (t ++ w ++ rest) = length t + length w.
Proof. exact RawProofs.plain_opener_keeps_whitespace. Qed.
(* non-vacuity: "ab \t\n{{- x }}" has a text element of 2 characters, "ab \t\n{{ x }}" one of 5;
   "-}} \n x" closes and takes the 2 whitespace characters *)
Example trim_nonvacuous :
  raw_len [97;98;32;9;10;123;123;45;32;120;32;125;125]%N = 2 /\ raw_len [97;98;32;9;10;123;123;32;120;32;125;125]%N = 5 /\
  end_spec close_exp close_exp_trim [45;125;125;32;10;120]%N 7 = Some ([120]%N, 12, []).
Proof. vm_compute. repeat split; reflexivity. Qed.

(* every text is tiled by its top-level elements; their texts, in order, are the text *)
Theorem elements_tile_the_text : forall s, exists f, forall f', f <= f' ->
  exists body,
    parse_tree liquid_grammar liquid_ws f' r_LaxLiquidFile s =
      Some (Some ([], length s, [TNode (mkTok r_LaxLiquidFile 0 (length s)) (body ++ [TNode (mkTok eoi_id (length s) (length s)) []])])) /\
    Forall (fun t => In (root t) [r_Expression; r_Tag; r_Raw; r_InvalidLiquid]) body /\
    tiles 0 (length s) body.
Proof. exact TreeShape.elements_tile_the_text. Qed.
Theorem source_is_the_concatenation_of_its_elements : forall s, exists f, forall f', f <= f' ->
  exists body,
    parse_tree liquid_grammar liquid_ws f' r_LaxLiquidFile s =
      Some (Some ([], length s, [TNode (mkTok r_LaxLiquidFile 0 (length s)) (body ++ [TNode (mkTok eoi_id (length s) (length s)) []])])) /\
    concat (map (span_text s) body) = s.
Proof. exact TreeShape.source_is_the_concatenation_of_its_elements. Qed.
(* the position reported by any evaluation is the number of characters consumed (any grammar) *)
Theorem positions_count_characters : forall g ws f at_ la e s pos s' p' t,
  ev g ws f at_ la e s pos = Some (Some (s', p', t)) -> p' + length s' = pos + length s.
Proof. exact PegPos.ev_pos. Qed.

Example c03_nonvacuous :
  match parse liquid_grammar liquid_ws 300 r_LaxLiquidFile [97;32;9;13;10;123;123;45;32;49;32;45;125;125;10;32;98]%N with
  | Some (Some (_, _, ts)) =>
      map (fun t => (t_rule t, t_start t, t_end t)) (filter (fun t => Nat.eqb (t_rule t) r_Raw || Nat.eqb (t_rule t) r_Expression) ts)
      = [(r_Raw, 0, 1); (r_Expression, 1, 16); (r_Raw, 16, 17)]
  | _ => False
  end.
Proof. vm_compute. reflexivity. Qed.

Print Assumptions whitespace_rule.
Print Assumptions whitespace_run_exact.
Print Assumptions drop_ws_is_the_maximal_run.
Print Assumptions whitespace_run_exact_any_mode.
Print Assumptions no_markup_is_one_raw.
Print Assumptions empty_text_is_no_element.
Print Assumptions no_delimiter_without_brace.
Print Assumptions opening_delimiter_exact.
Print Assumptions closing_delimiter_exact.
Print Assumptions raw_rule_exact.
Print Assumptions left_trim_excludes_whitespace.
Print Assumptions plain_opener_keeps_whitespace.
Print Assumptions elements_tile_the_text.
Print Assumptions source_is_the_concatenation_of_its_elements.
Print Assumptions positions_count_characters.
