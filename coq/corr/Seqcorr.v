(* Correspondence checker for the string and array filters (C13, C14): a filter chain applied to one input. *)
From LV Require Import Corr Filters_seq.
Record seqcase := mkSeq {
  sq_input : value;
  sq_chain : list (seqf * list value);
  sq_shows : list (spec_float * str);
  sq_uppers : list (char * str); sq_lowers : list (char * str);
  sq_graphs : list (str * list str);
  sq_expected : outcome value;
}.
Definition seq_check (c : seqcase) : bool :=
  let O := table_oracle5 (sq_shows c) [] (sq_uppers c) (sq_lowers c) (sq_graphs c) in
  match eval_chain O (sq_input c) (sq_chain c) with
  | Panic 900%N =>      (* sort_by on a comparator that is not a total preorder: std promises nothing *)
      match sq_expected c with OErr => false | _ => true end
  | r => outcome_same value_same (outcome_of r) (sq_expected c)
  end.
