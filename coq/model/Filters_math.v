(* Filters_math.v — crates/lib/src/stdlib/filters/math.rs (after the checked-arithmetic
   repair): abs, at_least, at_most, plus, minus, times, divided_by, modulo, round, ceil, floor.
   Integer path first (i64, checked), float path (IEEE binary64 as SpecFloat) otherwise. *)
From Coq Require Import SpecFloat.
From LV Require Export Value.

Definition checked (z : Z) : option Z := if in_i64 z then Some z else None.
Definition f_add := SFadd prec emax.
Definition f_sub := SFsub prec emax.
Definition f_mul := SFmul prec emax.
Definition f_div := SFdiv prec emax.
Definition f_abs := SFabs.
Definition f_sign (f : spec_float) : bool :=
  match f with S754_zero s | S754_infinity s | S754_finite s _ _ => s | S754_nan => false end.
Definition f_is_zero (f : spec_float) : bool := match f with S754_zero _ => true | _ => false end.

(* f64::max / f64::min: a NaN operand is ignored *)
Definition f_max (x y : spec_float) : spec_float :=
  if f_is_nan x then y else if f_is_nan y then x else
  match SFcompare x y with Some Lt => y | _ => x end.
Definition f_min (x y : spec_float) : spec_float :=
  if f_is_nan x then y else if f_is_nan y then x else
  match SFcompare x y with Some Gt => y | _ => x end.

(* f64 % f64 = C fmod: exact remainder with the sign of the dividend *)
Definition f_rem (x y : spec_float) : spec_float :=
  match x, y with
  | S754_nan, _ | _, S754_nan => S754_nan
  | S754_infinity _, _ => S754_nan
  | _, S754_zero _ => S754_nan
  | S754_zero _, _ => x
  | _, S754_infinity _ => x
  | S754_finite sx mx ex, S754_finite _ my ey =>
      let e := Z.min ex ey in
      let X := (Zpos mx * 2 ^ (ex - e))%Z in
      let Y := (Zpos my * 2 ^ (ey - e))%Z in
      let r := (X mod Y)%Z in
      match r with
      | Z0 => S754_zero sx
      | _ => let m := binary_normalize prec emax r e false in if sx then SFopp m else m
      end
  end.

(* exact integer part functions of a finite double m * 2^e (sign s): floor, ceil, and
   round half away from zero — as unbounded integers *)
Definition floor_d (v e : Z) : Z := if (0 <=? e)%Z then (v * 2 ^ e)%Z else (v / 2 ^ (- e))%Z.
Definition ceil_d (v e : Z) : Z := (- floor_d (- v) e)%Z.
Definition round_d (v e : Z) : Z :=
  if (0 <=? e)%Z then (v * 2 ^ e)%Z
  else let k := (2 ^ (- e))%Z in (Z.sgn v * ((2 * Z.abs v + k) / (2 * k)))%Z.
Definition trunc_d (v e : Z) : Z := if (0 <=? e)%Z then (v * 2 ^ e)%Z else Z.quot v (2 ^ (- e)).
Definition signed (s : bool) (m : positive) : Z := if s then Zneg m else Zpos m.
(* `x as i64`: saturating, NaN to 0 *)
Definition clamp_i64 (z : Z) : Z := if (z <? i64_min)%Z then i64_min else if (i64_max <? z)%Z then i64_max else z.
Definition f_int_via (g : Z -> Z -> Z) (f : spec_float) : Z :=
  match f with
  | S754_nan => 0%Z
  | S754_zero _ => 0%Z
  | S754_infinity s => if s then i64_min else i64_max
  | S754_finite s m e => clamp_i64 (g (signed s m) e)
  end.
Definition f_floor_i64 := f_int_via floor_d.
Definition f_ceil_i64 := f_int_via ceil_d.
Definition f_round_i64 := f_int_via round_d.
(* f64::round as a float (sign of zero preserved) *)
Definition f_round (f : spec_float) : spec_float :=
  match f with
  | S754_finite s m e =>
      if (0 <=? e)%Z then f else
      match round_d (signed s m) e with
      | Z0 => S754_zero s
      | z => binary_normalize prec emax z 0 false
      end
  | _ => f
  end.
(* compiler-rt __powidf2: square-and-multiply in double arithmetic (n >= 0 here) *)
Fixpoint powi_loop (fuel : nat) (a r : spec_float) (b : Z) : spec_float :=
  match fuel with
  | O => r
  | S fuel' =>
      let r' := if Z.odd b then f_mul r a else r in
      let b' := Z.quot b 2 in
      if (b' =? 0)%Z then r' else powi_loop fuel' (f_mul a a) r' b'
  end.
Definition f_one : spec_float := S754_finite false 4503599627370496 (-52).
Definition f_ten : spec_float := S754_finite false 5629499534213120 (-49).
Definition f_powi (a : spec_float) (n : Z) : spec_float := powi_loop 40 a f_one n.

Inductive mathf := FAbs | FAtLeast | FAtMost | FPlus | FMinus | FTimes | FDividedBy | FModulo | FRound | FCeil | FFloor.

Section M.
Variable O : oracle.

Definition as_scalar (v : value) : option scalar := match v with VScalar s => Some s | _ => None end.
Definition num2 (iop : Z -> Z -> option Z) (fop : spec_float -> spec_float -> spec_float)
                (input operand : scalar) : res value :=
  match (match to_integer input, to_integer operand with
         | Some i, Some o => match iop i o with Some r => Some (VScalar (SInt r)) | None => None end
         | _, _ => None end) with
  | Some r => Ok r
  | None =>
      match to_float O input, to_float O operand with
      | Some i, Some o => Ok (VScalar (SFloat (fop i o)))
      | _, _ => Err EInvalidArgument
      end
  end.
Definition zero_operand (operand : scalar) : bool :=
  match to_integer operand with
  | Some o => (o =? 0)%Z
  | None => match to_float O operand with Some f => f_is_zero f | None => false end
  end.

Definition math_filter (f : mathf) (input : value) (args : list value) : res value :=
  match f, args with
  | FAbs, [] =>
      match as_scalar input with
      | None => Err EInvalidInput
      | Some s =>
          match (match to_integer s with Some i => checked (Z.abs i) | None => None end) with
          | Some r => Ok (VScalar (SInt r))
          | None => match to_float O s with Some x => Ok (VScalar (SFloat (f_abs x))) | None => Err EInvalidInput end
          end
      end
  | FRound, [] | FRound, [_] =>
      match (match args with
             | [] => Ok 0%Z
             | a :: _ => match as_scalar a with
                         | Some s => match to_integer s with Some n => Ok n | None => Err EInvalidArgument end
                         | None => Err EInvalidArgument end
             end) with
      | Ok n =>
          match (match as_scalar input with Some s => to_float O s | None => None end) with
          | None => Err EInvalidInput
          | Some x =>
              if (n <=? 0)%Z then Ok (VScalar (SInt (f_round_i64 x)))
              else if (2147483647 <? n)%Z then Err EInvalidInput
              else let m := f_powi f_ten n in
                   Ok (VScalar (SFloat (f_div (f_round (f_mul x m)) m)))
          end
      | Err c => Err c
      | Panic s => Panic s
      | OutOfFuel => OutOfFuel
      end
  | FCeil, [] =>
      match (match as_scalar input with Some s => to_float O s | None => None end) with
      | Some x => Ok (VScalar (SInt (f_ceil_i64 x))) | None => Err EInvalidInput end
  | FFloor, [] =>
      match (match as_scalar input with Some s => to_float O s | None => None end) with
      | Some x => Ok (VScalar (SInt (f_floor_i64 x))) | None => Err EInvalidInput end
  | _, [a] =>
      match as_scalar input with
      | None => Err EInvalidInput
      | Some i =>
          match as_scalar a with
          | None => Err EInvalidArgument
          | Some o =>
              match f with
              | FAtLeast => num2 (fun x y => Some (Z.max x y)) f_max i o
              | FAtMost => num2 (fun x y => Some (Z.min x y)) f_min i o
              | FPlus => num2 (fun x y => checked (x + y)) f_add i o
              | FMinus => num2 (fun x y => checked (x - y)) f_sub i o
              | FTimes => num2 (fun x y => checked (x * y)) f_mul i o
              | FDividedBy => if zero_operand o then Err EInvalidArgument
                              else num2 (fun x y => checked (Z.quot x y)) f_div i o
              | FModulo => if zero_operand o then Err EInvalidArgument
                           else num2 (fun x y => Some (Z.rem x y)) f_rem i o
              | _ => Err EOther
              end
          end
      end
  | _, _ => Err EParse       (* wrong arity is rejected when the template is parsed *)
  end.
End M.
