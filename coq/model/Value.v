(* Value.v — the Liquid value model (crates/core/src/model): scalars, values,
   state markers, query_state, to_kstr/render, value_eq, value_cmp, find.
   Executable definitions only; proofs live in proofs/. *)
From Coq Require Import SpecFloat.
From LV Require Export Base.

(* ---- dates (scalar/date.rs, scalar/datetime.rs over the `time` crate) ---- *)
Record date := mkDate { d_year : Z; d_month : Z; d_day : Z }.
Record datetime := mkDT { dt_date : date; dt_hour : Z; dt_min : Z; dt_sec : Z;
                          dt_nano : Z; dt_off : Z (* offset, seconds east of UTC *) }.

(* days since 1970-01-01 of a proleptic Gregorian civil date *)
Definition days_from_civil (y m d : Z) : Z :=
  let y' := if (m <=? 2)%Z then (y - 1)%Z else y in
  let era := (y' / 400)%Z in                   (* floor division *)
  let yoe := (y' - era * 400)%Z in
  let mp := ((m + 9) mod 12)%Z in
  let doy := ((153 * mp + 2) / 5 + d - 1)%Z in
  let doe := (yoe * 365 + yoe / 4 - yoe / 100 + doy)%Z in
  (era * 146097 + doe - 719468)%Z.
Definition date_days (d : date) : Z := days_from_civil (d_year d) (d_month d) (d_day d).
(* the instant, in nanoseconds since the epoch (UTC) *)
Definition dt_instant (t : datetime) : Z :=
  (((date_days (dt_date t) * 86400 + dt_hour t * 3600 + dt_min t * 60 + dt_sec t - dt_off t)
    * 1000000000) + dt_nano t)%Z.
Definition dt_with_date (t : datetime) (d : date) : datetime :=
  mkDT d (dt_hour t) (dt_min t) (dt_sec t) (dt_nano t) (dt_off t).
Definition date_cmp (a b : date) : comparison :=
  match Z.compare (d_year a) (d_year b) with
  | Eq => match Z.compare (d_month a) (d_month b) with
          | Eq => Z.compare (d_day a) (d_day b) | c => c end
  | c => c end.
Definition date_eqb (a b : date) : bool := match date_cmp a b with Eq => true | _ => false end.

Fixpoint pad_left (c : char) (w : nat) (s : str) : str :=
  if Nat.leb w (length s) then s else
  match w with O => s | S w' => if Nat.leb (S w') (length s) then s else c :: pad_left c w' s end.
(* NB: pad_left pads to width w: repeat c (w - |s|) ++ s *)
Definition padz (w : nat) (z : Z) : str :=
  if (z <? 0)%Z then 45%N :: pad_left 48%N w (show_Z (- z)) else pad_left 48%N w (show_Z z).
Definition show_date (d : date) : str :=
  padz 4 (d_year d) ++ [45%N] ++ padz 2 (d_month d) ++ [45%N] ++ padz 2 (d_day d).
(* [subsecond]: digits:one_or_more — nine digits with trailing zeros removed *)
Fixpoint strip_trailing (c : char) (s : str) : str :=
  match s with
  | [] => []
  | x :: t => match strip_trailing c t with
              | [] => if N.eqb x c then [] else [x]
              | t' => x :: t'
              end
  end.
Definition show_offset (o : Z) : str :=
  let a := Z.abs o in
  (if (o <? 0)%Z then 45%N else 43%N) :: padz 2 (a / 3600)%Z ++ padz 2 ((a / 60) mod 60)%Z.
Definition show_datetime (t : datetime) : str :=
  show_date (dt_date t) ++ [32%N] ++ padz 2 (dt_hour t) ++ [58%N] ++ padz 2 (dt_min t)
  ++ [58%N] ++ padz 2 (dt_sec t)
  ++ (if (dt_nano t =? 0)%Z then [] else 46%N :: strip_trailing 48%N (pad_left 48%N 9 (show_Z (dt_nano t))))
  ++ [32%N] ++ show_offset (dt_off t).

(* ---- scalars and values ---- *)
Inductive scalar :=
| SInt (z : Z)                 (* i64; invariant in_i64 z *)
| SFloat (f : spec_float)      (* f64 as IEEE binary64 data *)
| SBool (b : bool)
| SDateTime (t : datetime)
| SDate (d : date)
| SStr (s : str).

Inductive state := Truthy | DefaultValue | Empty | Blank.

Inductive value :=
| VScalar (s : scalar)
| VArray (l : list value)
| VObject (kvs : list (str * value))     (* in iteration order *)
| VState (s : state)
| VNil.

Definition obj := list (str * value).

(* Oracles: behaviour of Rust std that the model does not define (§8 of DESIGN):
   f64's Display and f64::from_str.  The correspondence instantiates them with a
   table observed from the implementation in the same run. *)
Record oracle := mkOracle {
  fshow : spec_float -> str;               (* f64's Display *)
  fparse : str -> option spec_float;       (* f64::from_str *)
  upper_c : char -> str;                   (* char::to_uppercase *)
  lower_c : char -> str;                   (* char::to_lowercase *)
  graphemes : str -> list str;             (* unicode-segmentation, extended grapheme clusters *)
  dparse : str -> option datetime;         (* DateTime::from_str (six input syntaxes, unix timestamps) *)
}.

Definition no_oracle_v : oracle :=
  mkOracle (fun _ => [63%N]) (fun _ => None) (fun c => [c]) (fun c => [c]) (fun s => map (fun c => [c]) s) (fun _ => None).

(* ---- IEEE helpers (binary64) ---- *)
Definition prec := 53%Z.
Definition emax := 1024%Z.
Definition f_of_Z (z : Z) : spec_float :=   (* `x as f64` for i64 x: round to nearest even *)
  match z with
  | Z0 => S754_zero false
  | Zpos p => binary_normalize prec emax (Zpos p) 0 false
  | Zneg p => SFopp (binary_normalize prec emax (Zpos p) 0 false)
  end.
Definition f_cmp (a b : spec_float) : option comparison := SFcompare a b.
Definition f_eqb (a b : spec_float) : bool :=
  match SFcompare a b with Some Eq => true | _ => false end.
Definition f_is_nan (a : spec_float) : bool := match a with S754_nan => true | _ => false end.

(* char::is_whitespace (White_Space property) *)
Definition is_whitespace (c : char) : bool :=
  ((9 <=? c) && (c <=? 13) || (c =? 32) || (c =? 133) || (c =? 160) || (c =? 5760)
   || ((8192 <=? c) && (c <=? 8202)) || (c =? 8232) || (c =? 8233) || (c =? 8239)
   || (c =? 8287) || (c =? 12288))%N.
Definition str_blank (s : str) : bool := forallb is_whitespace s.

(* ---- ValueView::query_state ---- *)
Definition scalar_query (s : scalar) (st : state) : bool :=
  match s with
  | SBool b => match st with Truthy => b | DefaultValue => negb b | Empty => false | Blank => negb b end
  | SStr x => match st with Truthy => true | DefaultValue | Empty => match x with [] => true | _ => false end
                          | Blank => str_blank x end
  | _ => match st with Truthy => true | _ => false end
  end.
Definition is_nil_l {A} (l : list A) : bool := match l with [] => true | _ => false end.
Definition query_state (v : value) (st : state) : bool :=
  match v with
  | VScalar s => scalar_query s st
  | VArray l => match st with Truthy => true | _ => is_nil_l l end
  | VObject l => match st with Truthy => true | _ => is_nil_l l end
  | VState _ => match st with Truthy => false | _ => true end   (* state.rs: is_truthy is false, the rest true *)
  | VNil => match st with Truthy => false | _ => true end
  end.
Definition truthy (v : value) : bool := query_state v Truthy.

(* ---- to_kstr / render ---- *)
Definition show_bool (b : bool) : str :=
  if b then [116;114;117;101]%N else [102;97;108;115;101]%N.
Definition scalar_kstr (O : oracle) (s : scalar) : str :=
  match s with
  | SInt z => show_Z z
  | SFloat f => fshow O f
  | SBool b => show_bool b
  | SDateTime t => show_datetime t
  | SDate d => show_date d
  | SStr x => x
  end.
(* render: arrays concatenate their items; objects concatenate key and rendered value of
   every entry, in iteration order (ObjectRender) *)
Fixpoint render (O : oracle) (v : value) : str :=
  match v with
  | VScalar s => scalar_kstr O s
  | VArray l => flat_map (render O) l
  | VObject kvs =>
      (fix go (kvs : list (str * value)) : str :=
         match kvs with
         | [] => []
         | (k, x) :: t => k ++ render O x ++ go t
         end) kvs
  | VState _ => []
  | VNil => []
  end.
Definition to_kstr := render.

Definition type_name (v : value) : str :=
  match v with
  | VScalar (SInt _) => [119;104;111;108;101;32;110;117;109;98;101;114]%N
  | VScalar (SFloat _) => [102;114;97;99;116;105;111;110;97;108;32;110;117;109;98;101;114]%N
  | VScalar (SBool _) => [98;111;111;108;101;97;110]%N
  | VScalar (SDateTime _) => [100;97;116;101;32;116;105;109;101]%N
  | VScalar (SDate _) => [100;97;116;101]%N
  | VScalar (SStr _) => [115;116;114;105;110;103]%N
  | VArray _ => [97;114;114;97;121]%N
  | VObject _ => [111;98;106;101;99;116]%N
  | VState Truthy => [116;114;117;116;104;121]%N
  | VState DefaultValue => [100;101;102;97;117;108;116]%N
  | VState Empty => [101;109;112;116;121]%N
  | VState Blank => [98;108;97;110;107]%N
  | VNil => [110;105;108]%N
  end.

(* ---- ScalarCow conversions ---- *)
Definition to_integer (s : scalar) : option Z :=
  match s with SInt z => Some z | SStr x => parse_i64 x | _ => None end.
Definition to_float (O : oracle) (s : scalar) : option spec_float :=
  match s with SInt z => Some (f_of_Z z) | SFloat f => Some f | SStr x => fparse O x | _ => None end.
Definition to_bool (s : scalar) : option bool := match s with SBool b => Some b | _ => None end.

(* ---- scalar_eq / scalar_cmp (scalar/mod.rs) ---- *)
Definition scalar_eq (a b : scalar) : bool :=
  match a, b with
  | SInt x, SInt y => Z.eqb x y
  | SInt x, SFloat y => f_eqb (f_of_Z x) y
  | SFloat x, SInt y => f_eqb x (f_of_Z y)
  | SFloat x, SFloat y => f_eqb x y
  | SBool x, SBool y => Bool.eqb x y
  | SDateTime x, SDateTime y => Z.eqb (dt_instant x) (dt_instant y)
  | SDate x, SDate y => date_eqb x y
  | SDateTime x, SDate y => Z.eqb (dt_instant x) (dt_instant (dt_with_date x y))
  | SDate x, SDateTime y => Z.eqb (dt_instant (dt_with_date y x)) (dt_instant y)
  | SStr x, SStr y => str_eqb x y
  | _, SBool b => b
  | SBool b, _ => b
  | _, _ => false
  end.
Definition scalar_cmp (a b : scalar) : option comparison :=
  match a, b with
  | SInt x, SInt y => Some (Z.compare x y)
  | SInt x, SFloat y => f_cmp (f_of_Z x) y
  | SFloat x, SInt y => f_cmp x (f_of_Z y)
  | SFloat x, SFloat y => f_cmp x y
  | SBool x, SBool y => Some (match x, y with false, true => Lt | true, false => Gt | _, _ => Eq end)
  | SDateTime x, SDateTime y => Some (Z.compare (dt_instant x) (dt_instant y))
  | SDate x, SDate y => Some (date_cmp x y)
  | SDateTime x, SDate y => Some (Z.compare (dt_instant x) (dt_instant (dt_with_date x y)))
  | SDate x, SDateTime y => Some (Z.compare (dt_instant (dt_with_date y x)) (dt_instant y))
  | SStr x, SStr y => Some (str_cmp x y)
  | _, _ => None
  end.

(* ---- value_eq (value/view.rs), on fuel because the object arm swaps its arguments ---- *)
Fixpoint veq (n : nat) (a b : value) : bool :=
  match n with
  | O => false
  | S n =>
    match a, b with
    | VArray x, VArray y =>
        Nat.eqb (length x) (length y) &&
        (fix zip (x y : list value) : bool :=
           match x, y with u :: x', w :: y' => veq n u w && zip x' y' | _, _ => true end) x y
    | VObject x, VObject y =>
        Nat.eqb (length x) (length y) &&
        forallb (fun kv => match lookup (fst kv) y with
                           | Some v => veq n v (snd kv) | None => false end) x
    | VNil, VNil => true
    | VState st, _ => query_state b st
    | _, VState st => query_state a st
    | VScalar x, VScalar y => scalar_eq x y
    | VScalar x, VNil => negb (match to_bool x with Some t => t | None => true end)
    | VScalar x, _ => match to_bool x with Some t => t | None => false end
    | VNil, VScalar x => negb (match to_bool x with Some t => t | None => true end)
    | _, VScalar x => match to_bool x with Some t => t | None => false end
    | _, _ => false
    end
  end.
Fixpoint depth (v : value) : nat :=
  match v with
  | VArray l => S (fold_right (fun x m => Nat.max (depth x) m) 0 l)
  | VObject l => S (fold_right (fun kv m => Nat.max (depth (snd kv)) m) 0 l)
  | _ => 1
  end.
Definition value_eq (a b : value) : bool := veq (depth a + depth b) a b.

(* ---- value_cmp (value/view.rs): Iterator::partial_cmp is lexicographic; object entries
   are compared in key order (stable sort_by on the key).  On fuel, because the sorted
   entry lists are not subterms. ---- *)
Fixpoint insert_kv (kv : str * value) (l : list (str * value)) : list (str * value) :=
  match l with
  | [] => [kv]
  | h :: t => match str_cmp (fst kv) (fst h) with
              | Gt => h :: insert_kv kv t
              | _ => kv :: l
              end
  end.
Definition sort_kvs (l : list (str * value)) : list (str * value) := fold_right insert_kv [] l.

Fixpoint vcmp (n : nat) (a b : value) : option comparison :=
  match n with
  | O => None
  | S n =>
    match a, b with
    | VScalar x, VScalar y => scalar_cmp x y
    | VArray x, VArray y =>
        (fix lex (x y : list value) : option comparison :=
           match x, y with
           | [], [] => Some Eq
           | [], _ :: _ => Some Lt
           | _ :: _, [] => Some Gt
           | u :: x', w :: y' => match vcmp n u w with
                                 | Some Eq => lex x' y'
                                 | r => r end
           end) x y
    | VObject x, VObject y =>
        (fix lex (x y : list (str * value)) : option comparison :=
           match x, y with
           | [], [] => Some Eq
           | [], _ :: _ => Some Lt
           | _ :: _, [] => Some Gt
           | (k, u) :: x', (j, w) :: y' =>
               match str_cmp k j with
               | Eq => match vcmp n u w with Some Eq => lex x' y' | r => r end
               | c => Some c
               end
           end) (sort_kvs x) (sort_kvs y)
    | _, _ => None
    end
  end.
Definition value_cmp (a b : value) : option comparison := vcmp (depth a + depth b) a b.
Definition value_ne (a b : value) : bool := negb (value_eq a b).      (* PartialEq::ne default *)
Definition v_lt a b := match value_cmp a b with Some Lt => true | _ => false end.
Definition v_le a b := match value_cmp a b with Some Lt | Some Eq => true | _ => false end.
Definition v_gt a b := match value_cmp a b with Some Gt => true | _ => false end.
Definition v_ge a b := match value_cmp a b with Some Gt | Some Eq => true | _ => false end.

(* ---- find.rs ---- *)
(* array/mod.rs: convert_index + slice::get(index as usize) *)
Definition arr_get (l : list value) (i : Z) : option value :=
  let i' := if (0 <=? i)%Z then i else (Z.of_nat (length l) + i)%Z in
  if (i' <? 0)%Z then None else nth_error l (Z.to_nat i').
Definition k_first : str := [102;105;114;115;116]%N.
Definition k_last : str := [108;97;115;116]%N.
Definition k_size : str := [115;105;122;101]%N.
(* byte length of the UTF-8 encoding (str::len) *)
Definition utf8_len1 (c : char) : Z :=
  if (c <? 128)%N then 1%Z else if (c <? 2048)%N then 2%Z else if (c <? 65536)%N then 3%Z else 4%Z.
Definition utf8_len (s : str) : Z := fold_right (fun c n => (utf8_len1 c + n)%Z) 0%Z s.

Definition augmented_get (O : oracle) (v : value) (idx : scalar) : option value :=
  match v with
  | VArray l =>
      match to_integer idx with
      | Some i => arr_get l i
      | None =>
          let k := scalar_kstr O idx in
          if str_eqb k k_first then arr_get l 0
          else if str_eqb k k_last then arr_get l (-1)
          else if str_eqb k k_size then Some (VScalar (SInt (Z.of_nat (length l))))
          else None
      end
  | VObject kvs =>
      let k := scalar_kstr O idx in
      match lookup k kvs with
      | Some x => Some x
      | None => if str_eqb k k_size then Some (VScalar (SInt (Z.of_nat (length kvs)))) else None
      end
  | VScalar s =>
      let k := scalar_kstr O idx in
      if str_eqb k k_size then Some (VScalar (SInt (Z.of_nat (length (scalar_kstr O s))))) else None   (* characters, after the repair *)
  | _ => None
  end.
Fixpoint try_find (O : oracle) (v : value) (path : list scalar) : option value :=
  match path with
  | [] => Some v
  | i :: p => match augmented_get O v i with Some c => try_find O c p | None => None end
  end.
(* find: Ok, or "Unknown index" for the longest resolvable proper prefix of length >= 1,
   or the panic!("Should have already errored") when not even the one-element prefix resolves *)
Definition site_find_should_have_errored : N := 101%N.
Fixpoint any_prefix_resolves (O : oracle) (v : value) (path : list scalar) (n : nat) : bool :=
  match n with
  | O => false
  | S n' => match try_find O v (firstn (S n') path) with
            | Some _ => true
            | None => any_prefix_resolves O v path n'
            end
  end.
Definition find (O : oracle) (v : value) (path : list scalar) : res value :=
  match try_find O v path with
  | Some r => Ok r
  | None => if any_prefix_resolves O v path (length path - 1) then Err EUnknownIndex
            else Panic site_find_should_have_errored
  end.

(* well-formed values: unique object keys, integers in range *)
Fixpoint nodup_keys (l : list str) : bool :=
  match l with [] => true | k :: t => negb (mem_str k t) && nodup_keys t end.
Fixpoint wf_value (v : value) : bool :=
  match v with
  | VScalar (SInt z) => in_i64 z
  | VScalar _ => true
  | VArray l => forallb wf_value l
  | VObject kvs => nodup_keys (map fst kvs) && forallb (fun kv => wf_value (snd kv)) kvs
  | _ => true
  end.
