"""C15 — arithmetic filters are exact or fail; they never wrap or crash."""
import json, math, random, struct
from fractions import Fraction
from lv import C, R, S, P, Opt, val_ir, float_ir

PROP = "C15"
TARGETS = ["props/C15.vo", "corr/C15corr.vo"]
HEADER = "From LV Require Import Corr Filters_math C15corr.\n"
CHECKER = "c15_check"
PROFILES = ["debug", "release"]
TRUSTED = [
    "model/Filters_math.v transcribes crates/lib/src/stdlib/filters/math.rs (after the checked-arithmetic repair)",
    "IEEE binary64 operations are Coq's SpecFloat (SFadd/SFsub/SFmul/SFdiv 53 1024); % is an exact fmod on (mantissa, exponent); f64::from_str is an oracle instantiated by a table observed from the implementation in the same run; 10.0.powi(n) is modelled as compiler-rt's square-and-multiply",
]
RULE = ("every math filter x every pair from the 64-bit boundary set as integers, numeric strings and floats, all k/8 pairs (|k|<=12 quick, <=40 thorough), "
        "random 64-bit operands, type-confused operands; debug and release builds; non-trivial = the implementation returned a number (not an error)")

I64MAX, I64MIN = 2 ** 63 - 1, -2 ** 63
BOUND = [0, 1, -1, 2, -2, 3, -3, 7, -7, 10, 2 ** 31, -2 ** 31, 2 ** 62, -2 ** 62, I64MAX - 1, I64MAX, I64MIN, I64MIN + 1]
BIN = ["plus", "minus", "times", "divided_by", "modulo", "at_least", "at_most"]
UN = ["abs", "ceil", "floor", "round"]
FCTOR = {"abs": "FAbs", "at_least": "FAtLeast", "at_most": "FAtMost", "plus": "FPlus", "minus": "FMinus", "times": "FTimes",
         "divided_by": "FDividedBy", "modulo": "FModulo", "round": "FRound", "ceil": "FCeil", "floor": "FFloor"}


def fbits(x):
    return str(struct.unpack("<Q", struct.pack("<d", x))[0])


def bits_f(b):
    return struct.unpack("<d", struct.pack("<Q", int(b)))[0]


def forms(n):
    return [["i", str(n)], ["s", str(n)], ["f", fbits(float(n))]]


def gen(tier, seed):
    rnd = random.Random(seed)
    cases = []

    def add(f, x, args, why):
        cases.append({"f": f, "x": x, "args": args, "why": why})
    vals = [v for n in BOUND for v in forms(n)]
    for f in BIN:
        for a in vals:
            for b in vals:
                add(f, a, [b], "boundary")
    for f in UN:
        for a in vals:
            add(f, a, [], "boundary")
    K = 12 if tier == "quick" else 40
    eighths = [["f", fbits(k / 8)] for k in range(-K, K + 1)]
    for f in BIN:
        for a in eighths:
            for b in eighths:
                if f in ("at_least", "at_most") and bits_f(a[1]) == 0 and bits_f(b[1]) == 0:
                    continue
                add(f, a, [b], "eighths")
    for f in UN:
        for k in range(-40, 41):
            add(f, ["f", fbits(k / 8)], [], "eighths")
            add(f, ["s", repr(k / 8)], [], "eighths-str")
    for k in range(-40, 41):
        for n in (-1, 0, 1, 2, 3):
            add("round", ["f", fbits(k / 8 + 0.001 * k)], [["i", str(n)]], "round-places")
    # random 64-bit operands and random doubles
    nrand = 1500 if tier == "quick" else 40000
    for _ in range(nrand):
        def rv():
            r = rnd.random()
            if r < 0.45:
                return ["i", str(rnd.choice([rnd.getrandbits(64) - 2 ** 63, rnd.randint(-1000, 1000), rnd.getrandbits(33) - 2 ** 32]))]
            if r < 0.8:
                e = rnd.choice([0, 1, 10, 30, 52, 53, 62, 63, 64, 100, 300, -1, -10, -300, -1070])
                return ["f", fbits(math.ldexp(rnd.random() * 2 - 1, e))]
            if r < 0.9:
                return ["s", str(rnd.randint(-10 ** 19, 10 ** 19))]
            return ["s", rnd.choice(["1.5", "-2.25", "1e3", "abc", "", " 1", "1 ", "+5", "0x10", "inf", "nan", "-0", "1e400", ".5", "5."])]
        f = rnd.choice(BIN + UN)
        add(f, rv(), [rv()] if f in BIN else ([] if rnd.random() < 0.7 or f != "round" else [["i", str(rnd.randint(-2, 25))]]), "random")
    # type confusion
    odd = [["n"], ["b", True], ["a", [["i", "1"]]], ["o", [["a", ["i", "1"]]]], ["s", "x"], ["f", fbits(float("inf"))], ["f", fbits(float("nan"))], ["f", fbits(-0.0)]]
    for f in BIN:
        for a in odd + [["i", "5"]]:
            for b in odd + [["i", "0"], ["f", fbits(0.0)], ["s", "0"], ["s", "0.0"]]:
                add(f, a, [b], "confused")
    for f in UN:
        for a in odd:
            add(f, a, [], "confused")
    for a in odd:
        add("round", ["f", fbits(2.5)], [a], "confused")
    for i, c in enumerate(cases):
        c["id"] = i
    dist = {}
    for c in cases:
        dist[c["why"]] = dist.get(c["why"], 0) + 1
    dist["exhaustive"] = True
    return cases, dist


PARSE = {}


def strings_of(c):
    return [v[1] for v in [c["x"]] + c["args"] if v[0] == "s"]


def prepare(cases, run):
    ss = sorted({s for c in cases for s in strings_of(c)} - set(PARSE))
    if ss:
        r = run([{"id": 0, "kind": "oracle", "parse": ss, "show": []}])[0]
        for s, b in zip(ss, r["parse"]):
            PARSE[s] = b


def request(c):
    args = ["a%d" % i for i in range(len(c["args"]))]
    tpl = "{{ x | %s%s | lv_dump }}" % (c["f"], (": " + ", ".join(args)) if args else "")
    return {"id": c["id"], "kind": "render", "tpl": tpl, "data": [["x", c["x"]]] + [[a, v] for a, v in zip(args, c["args"])]}


def observed(resp):
    if "ok" in resp:
        return ("ok", json.loads(resp["ok"]))
    if "panic" in resp:
        return ("panic", resp["panic"])
    return ("err", resp.get("err") or resp.get("parse_err"))


def case_ir(c, resp):
    kind, v = observed(resp)
    exp = C("OOk", val_ir(v)) if kind == "ok" else C("OErr") if kind == "err" else C("OPanic")
    parses = [P(S(s), Opt(float_ir, PARSE[s])) for s in strings_of(c)]
    return R("mkC15", C(FCTOR[c["f"]]), val_ir(c["x"]), [val_ir(a) for a in c["args"]], parses, exp)


MODEL_HANDLES_PANIC = True


# ---- independent reference (Python big integers / IEEE doubles), from the property text ----
def as_num(v):
    """('i', int) | ('f', float) | None — numeric strings behave like the numbers they spell"""
    if v[0] == "i":
        return ("i", int(v[1]))
    if v[0] == "f":
        return ("f", bits_f(v[1]))
    if v[0] == "s":
        s = v[1]
        try:
            if s and (s[0] in "+-" and s[1:].isdigit() or s.isdigit()) and s.isascii():
                n = int(s)
                if I64MIN <= n <= I64MAX:
                    return ("i", n)
        except ValueError:
            pass
        b = PARSE.get(s)
        return ("f", bits_f(b)) if b is not None else None
    return None


def fits(n):
    return I64MIN <= n <= I64MAX


def tq(a, b):   # truncated quotient
    q = abs(a) // abs(b)
    return q if (a < 0) == (b < 0) else -q


def same_float(x, y):
    return (math.isnan(x) and math.isnan(y)) or (x == y and math.copysign(1, x) == math.copysign(1, y))


def spec_check(c, resp):
    kind, got = observed(resp)
    inp = {"filter": c["f"], "input": c["x"], "args": c["args"]}
    if kind == "panic":
        return {"what": "math filter panicked", "input": inp, "observed": got}
    a = as_num(c["x"])
    f = c["f"]
    if f in BIN:
        b = as_num(c["args"][0]) if c["args"][0][0] in ("i", "f", "s") else None
        if a is None or b is None:
            return None if kind == "err" else {"what": "non-numeric operand accepted", "input": inp, "observed": got}
        if a[0] == "i" and b[0] == "i":
            x, y = a[1], b[1]
            if f in ("divided_by", "modulo") and y == 0:
                return None if kind == "err" else {"what": "division by zero is not an error", "input": inp, "observed": got}
            exact = {"plus": x + y, "minus": x - y, "times": x * y, "at_least": max(x, y), "at_most": min(x, y),
                     "divided_by": tq(x, y) if y else None, "modulo": (x - tq(x, y) * y) if y else None}[f]
            if fits(exact):
                if kind != "ok" or got[0] != "i" or int(got[1]) != exact:
                    return {"what": "integer result is not the mathematical result", "input": inp, "observed": got, "expected": exact}
                if f == "modulo" and not (abs(exact) < abs(y)):
                    return {"what": "remainder not smaller than divisor", "input": inp, "observed": got}
                return None
            # does not fit: error or float, never another integer
            if kind == "ok" and got[0] == "i":
                return {"what": "integer overflow produced a wrapped integer", "input": inp, "observed": got, "expected": "error or float near %d" % exact}
            if kind == "ok" and got[0] == "f":
                fx = bits_f(got[1])
                want = float(x) + float(y) if f == "plus" else float(x) - float(y) if f == "minus" else float(x) * float(y) if f == "times" else float(x) / float(y) if f == "divided_by" else math.fmod(float(x), float(y))
                if not same_float(fx, want):
                    return {"what": "float fallback is not the IEEE result", "input": inp, "observed": fx, "expected": want}
            return None
        # float path (a numeric string is read as the double it spells: "-0" is -0.0)
        def fl(v, n):
            return bits_f(PARSE[v[1]]) if v[0] == "s" and PARSE.get(v[1]) is not None else float(n[1])
        x, y = fl(c["x"], a), fl(c["args"][0], b)
        if f in ("divided_by", "modulo") and ((b[0] == "i" and b[1] == 0) or (b[0] == "f" and y == 0.0)):
            return None if kind == "err" else {"what": "division by zero is not an error", "input": inp, "observed": got}
        try:
            want = {"plus": lambda: x + y, "minus": lambda: x - y, "times": lambda: x * y,
                    "divided_by": lambda: x / y if y != 0 else (float("nan") if x == 0 or math.isnan(x) else math.copysign(float("inf"), x) * math.copysign(1, y)),
                    "modulo": lambda: math.fmod(x, y) if not (math.isinf(x) or y == 0) else float("nan"),
                    "at_least": lambda: y if math.isnan(x) else x if math.isnan(y) else max(x, y),
                    "at_most": lambda: y if math.isnan(x) else x if math.isnan(y) else min(x, y)}[f]()
        except (OverflowError, ValueError):
            return None
        if kind != "ok" or got[0] != "f":
            return {"what": "float operands did not give a float result", "input": inp, "observed": got, "expected": want}
        fx = bits_f(got[1])
        if f in ("at_least", "at_most") and fx == want == 0:
            return None
        if not same_float(fx, want):
            return {"what": "float result is not the IEEE double result", "input": inp, "observed": fx, "expected": want}
        return None
    # unary
    if a is None:
        return None if kind == "err" else {"what": "non-numeric input accepted", "input": inp, "observed": got}
    if f == "abs":
        if a[0] == "i":
            if fits(abs(a[1])):
                ok = kind == "ok" and got[0] == "i" and int(got[1]) == abs(a[1])
                return None if ok else {"what": "abs is not the absolute value", "input": inp, "observed": got}
            if kind == "ok" and got[0] == "i":
                return {"what": "abs overflow produced a wrapped integer", "input": inp, "observed": got}
            return None
        ok = kind == "ok" and got[0] == "f" and same_float(bits_f(got[1]), abs(a[1]))
        return None if ok else {"what": "abs of a float", "input": inp, "observed": got}
    if c["args"]:
        n = c["args"][0]
        if n[0] != "i" and not (n[0] == "s" and as_num(n) and as_num(n)[0] == "i"):
            return None if kind == "err" else {"what": "non-integer decimal places accepted", "input": inp, "observed": got}
        places = as_num(n)[1]
        if places > 0:
            return None     # multiply / round / divide in doubles: judged by the model correspondence only
    x = float(a[1]) if a[0] == "i" else a[1]
    if math.isnan(x):
        want = 0
    elif math.isinf(x):
        want = I64MAX if x > 0 else I64MIN
    else:
        fr = Fraction(x)
        if f == "floor":
            want = math.floor(fr)
        elif f == "ceil":
            want = math.ceil(fr)
        else:
            fl = math.floor(abs(fr) + Fraction(1, 2))
            want = fl if fr >= 0 else -fl
        want = max(I64MIN, min(I64MAX, want))
    ok = kind == "ok" and got[0] == "i" and int(got[1]) == want
    return None if ok else {"what": "%s does not return the neighbouring integer in the documented direction" % f, "input": inp, "observed": got, "expected": want}


def nontrivial(c, resp):
    return "ok" in resp
