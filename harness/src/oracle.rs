//! "oracle": what Rust std answers for f64::from_str and f64's Display (the model's oracles)
use serde_json::{json, Value as J};

pub fn run(req: &J) -> J {
    let parses: Vec<J> = req["parse"].as_array().map(|a| a.iter().map(|s| {
        match s.as_str().unwrap().parse::<f64>() { Ok(f) => json!(f.to_bits().to_string()), Err(_) => J::Null }
    }).collect()).unwrap_or_default();
    let shows: Vec<J> = req["show"].as_array().map(|a| a.iter().map(|b| {
        json!(f64::from_bits(b.as_str().unwrap().parse::<u64>().unwrap()).to_string())
    }).collect()).unwrap_or_default();
    json!({"parse": parses, "show": shows})
}
