//! "oracle": what Rust std / unicode-segmentation answer for the model's oracles:
//! f64::from_str, f64's Display, char::to_uppercase / to_lowercase, extended grapheme clusters
use serde_json::{json, Value as J};
use unicode_segmentation::UnicodeSegmentation;

pub fn run(req: &J) -> J {
    let parses: Vec<J> = req["parse"].as_array().map(|a| a.iter().map(|s| {
        match s.as_str().unwrap().parse::<f64>() { Ok(f) => json!(f.to_bits().to_string()), Err(_) => J::Null }
    }).collect()).unwrap_or_default();
    let shows: Vec<J> = req["show"].as_array().map(|a| a.iter().map(|b| {
        json!(f64::from_bits(b.as_str().unwrap().parse::<u64>().unwrap()).to_string())
    }).collect()).unwrap_or_default();
    let cases: Vec<J> = req["chars"].as_str().map(|s| s.chars().map(|c| {
        json!([c.to_string(), c.to_uppercase().collect::<String>(), c.to_lowercase().collect::<String>()])
    }).collect()).unwrap_or_default();
    let graphs: Vec<J> = req["graphemes"].as_array().map(|a| a.iter().map(|s| {
        json!(UnicodeSegmentation::graphemes(s.as_str().unwrap(), true).collect::<Vec<&str>>())
    }).collect()).unwrap_or_default();
    json!({"parse": parses, "show": shows, "chars": cases, "graphemes": graphs})
}
