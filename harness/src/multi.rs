//! "history" (C09): many renders through ONE parser, each compared with a freshly built parser.
//! "threads" (C20): the same calls from several threads released together by a barrier.
use crate::render::{build_parser, out_json};
use crate::val;
use serde_json::{json, Value as J};
use std::sync::{Arc, Barrier};

fn render_one(tpl: &Result<liquid::Template, String>, data: &liquid::Object) -> J {
    match tpl {
        Err(e) => json!({"parse_err": e}),
        Ok(t) => {
            let mut buf: Vec<u8> = Vec::new();
            match t.render_to(&mut buf, data) {
                Ok(()) => json!({"ok": out_json(&buf)}),
                Err(e) => json!({"err": e.to_string(), "partial": out_json(&buf)}),
            }
        }
    }
}

pub fn history(req: &J) -> J {
    let parser = match build_parser(req) {
        Ok(p) => p,
        Err(e) => return json!({"build_err": e}),
    };
    let srcs: Vec<String> = req["templates"].as_array().unwrap().iter().map(|s| s.as_str().unwrap().to_owned()).collect();
    let datas: Vec<liquid::Object> = req["datas"].as_array().unwrap().iter().map(val::obj_from_json).collect();
    let tpls: Vec<Result<liquid::Template, String>> = srcs.iter().map(|s| parser.parse(s).map_err(|e| e.to_string())).collect();
    let mut results = Vec::new();
    let mut fresh = Vec::new();
    for c in req["calls"].as_array().unwrap() {
        let (ti, di) = (c[0].as_u64().unwrap() as usize, c[1].as_u64().unwrap() as usize);
        let before = val::view_to_json(&datas[di]);
        results.push(render_one(&tpls[ti], &datas[di]));
        let after = val::view_to_json(&datas[di]);
        if before != after {
            results.push(json!({"data_changed": [before, after]}));
        }
        // the same (template, data) on a freshly built parser and a freshly parsed copy
        let fp = build_parser(req).expect("parser");
        let ft = fp.parse(&srcs[ti]).map_err(|e| e.to_string());
        fresh.push(render_one(&ft, &datas[di]));
    }
    json!({"results": results, "fresh": fresh})
}

pub fn threads(req: &J) -> J {
    let parser = match build_parser(req) {
        Ok(p) => Arc::new(p),
        Err(e) => return json!({"build_err": e}),
    };
    let srcs: Arc<Vec<String>> = Arc::new(req["templates"].as_array().unwrap().iter().map(|s| s.as_str().unwrap().to_owned()).collect());
    let datas: Arc<Vec<liquid::Object>> = Arc::new(req["datas"].as_array().unwrap().iter().map(val::obj_from_json).collect());
    let shared: Arc<Vec<Result<liquid::Template, String>>> = Arc::new(srcs.iter().map(|s| parser.parse(s).map_err(|e| e.to_string())).collect());
    let progs: Vec<Vec<(String, usize, usize)>> = req["threads"].as_array().unwrap().iter().map(|t| {
        t.as_array().unwrap().iter().map(|c| (c[0].as_str().unwrap().to_owned(), c[1].as_u64().unwrap() as usize, c[2].as_u64().unwrap_or(0) as usize)).collect()
    }).collect();
    let n = progs.len();
    let barrier = Arc::new(Barrier::new(n));
    let yields = req["yields"].as_bool().unwrap_or(false);
    let skew = req["skew_us"].as_u64().unwrap_or(0);
    let (tx, rx) = std::sync::mpsc::channel();
    for (ti, prog) in progs.into_iter().enumerate() {
        let (parser, srcs, datas, shared, barrier, tx) = (parser.clone(), srcs.clone(), datas.clone(), shared.clone(), barrier.clone(), tx.clone());
        std::thread::spawn(move || {
            barrier.wait();
            if skew > 0 { std::thread::sleep(std::time::Duration::from_micros(skew * ti as u64)); }
            let mut out = Vec::new();
            for (kind, a, b) in prog {
                if yields { std::thread::yield_now(); }
                let r = std::panic::catch_unwind(std::panic::AssertUnwindSafe(|| match kind.as_str() {
                    "render" => render_one(&shared[a], &datas[b]),
                    "parse_render" => { let t = parser.parse(&srcs[a]).map_err(|e| e.to_string()); render_one(&t, &datas[b]) }
                    "parse" => match parser.parse(&srcs[a]) { Ok(_) => json!({"parsed": true}), Err(e) => json!({"parse_err": e.to_string()}) },
                    _ => json!({"error": "kind"}),
                }));
                out.push(match r { Ok(j) => j, Err(_) => json!({"panic": "in thread"}) });
            }
            let _ = tx.send((ti, out));
        });
    }
    drop(tx);
    let mut per_thread: Vec<J> = vec![J::Null; n];
    let deadline = std::time::Instant::now() + std::time::Duration::from_secs(req["watchdog_s"].as_u64().unwrap_or(20));
    let mut got = 0;
    while got < n {
        let left = deadline.saturating_duration_since(std::time::Instant::now());
        match rx.recv_timeout(left) {
            Ok((ti, out)) => { per_thread[ti] = json!(out); got += 1; }
            Err(_) => return json!({"deadlock": true, "finished": got, "threads": per_thread}),
        }
    }
    // later use is unaffected: one more sequential pass over every (template, data) on the same parser
    let mut after = Vec::new();
    for t in shared.iter() { for d in datas.iter() { after.push(render_one(t, d)); } }
    json!({"threads": per_thread, "after": after})
}
