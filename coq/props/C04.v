(* C04 — Scoping: innermost binding wins, assignments persist, caller data untouched.
   Statements only; proofs in proofs/ShapeProofs.v (evaluator) and proofs/StackProofs.v (lookup). *)
From LV Require Import Base Value Stack Eval StackProofs EvalProofs ShapeProofs.

(* the layers of a render, innermost first: assigned variables, the caller's data, counters *)
Theorem build_order : forall data, fr (est_build data) = [FGlobal []; FPlain data; FIndex []].
Proof. exact ShapeProofs.build_order. Qed.
(* a name resolves to its innermost binding: the first layer, innermost first and stopping at a
   sandbox, that defines it.  With build_order this is the precedence chain loop variables / include
   arguments > assign / capture > caller data > counters *)
Theorem innermost_wins : forall O p r, try_get O p r = spec_try_get O p r.
Proof. exact StackProofs.try_get_refines_spec. Qed.
Theorem get_agrees : forall O p r v, get O p r = Ok v <-> try_get O p r = Some v.
Proof. exact StackProofs.get_try_get_agree. Qed.
(* assign binds for the rest of the render no matter how deep inside blocks it executes *)
Theorem assign_persists : forall O ps rec x v s k a d b, fr s = a ++ FGlobal d :: b -> Forall not_global a ->
  rnode O ps rec (NAssign x (ELit v, [])) s k = (ODone, mkEst (a ++ FGlobal (upsert x v d) :: b) (rg s), k).
Proof. exact ShapeProofs.assign_persists. Qed.
Theorem assign_then_visible : forall O x v a d b,
  Forall (plain_without x) a -> try_get O [SStr x] (a ++ FGlobal (upsert x v d) :: b) = Some v.
Proof. exact ShapeProofs.assign_then_visible. Qed.
(* capture binds exactly the text its body would have printed, and prints nothing *)
Theorem capture_exact : forall O ps rec x body s k,
  match rlist O ps rec body s sink0 with
  | (ODone, s', kc) =>
      forall t f', decode (acc kc) = Some t -> set_global x (VScalar (SStr t)) (fr s') = Ok f' ->
      rnode O ps rec (NCapture x body) s k = (ODone, mkEst f' (rg s'), k)
  | (o, s', _) => o <> ODone -> rnode O ps rec (NCapture x body) s k = (o, s', k)
  end.
Proof. exact ShapeProofs.capture_exact. Qed.
(* the shape invariant: for every template, data, partial store and nesting depth, the frames
   after a render are the frames before it — same kinds, plain and sandbox layers untouched *)
Theorem shape_inv : forall O ps d l, SH (render O ps d l).
Proof. exact ShapeProofs.shape_inv. Qed.
(* a loop variable stops existing when its loop ends (no node leaves a frame behind) *)
Theorem frames_restored : forall O ps d n s k, wfr s ->
  match rnode O ps (render O ps d) n s k with (_, s', _) => sim (fr s) (fr s') /\ length (rg s) = length (rg s') end.
Proof. exact ShapeProofs.frames_restored. Qed.
(* the caller's data object is never modified *)
Theorem caller_data_untouched : forall O ps depth t data k,
  match render_top O ps depth t data k with
  | (_, s', _) => exists g c, fr s' = [FGlobal g; FPlain data; FIndex c]
  end.
Proof. exact ShapeProofs.caller_data_untouched. Qed.

(* non-vacuity: an assign inside a for loop inside an if persists, the loop variable does not *)
Example c04_nonvacuous :
  let a := [97%N] in let x := [120%N] in
  let t := [NIf true (CExists (ELit (VScalar (SBool true))))
              [NFor x (RCounted (ELit (VScalar (SInt 1))) (ELit (VScalar (SInt 2)))) None None false
                 [NAssign a (EVar (SStr x) [], [])] None] None;
            NOutput (EVar (SStr a) [], [])] in
  match render_top no_oracle_v (fun _ => Err EOther) 2 t [(a, VScalar (SStr [100%N]))] sink0 with
  | (o, s', k) => o = ODone /\ acc k = [50%N] /\ try_get no_oracle_v [SStr x] (fr s') = None
  end.
Proof. vm_compute. repeat split; reflexivity. Qed.

Print Assumptions build_order.
Print Assumptions innermost_wins.
Print Assumptions get_agrees.
Print Assumptions assign_persists.
Print Assumptions assign_then_visible.
Print Assumptions capture_exact.
Print Assumptions shape_inv.
Print Assumptions frames_restored.
Print Assumptions caller_data_untouched.
