(* ValidFilters.v — every modelled filter returns valid text when given valid text: the hypothesis FV of
   ValidProofs.v discharged for the math, html/url, string and array filters. *)
From LV Require Import Base Consts Value Stack Utf8 Filters_math Filters_html Filters_seq Eval BaseLemmas
  Utf8Proofs ValueProofs SafeProofs ValidProofs.
From LV Require Import Filters_date Filters_extra ValidDate.
Require Import ZifyBool ZifyNat ZifyN.

Lemma sv_incl a b : incl a b -> sv b = true -> sv a = true.
Proof. unfold sv. intros H Hb. rewrite forallb_forall in *. auto. Qed.
Lemma vvl_incl (a b : list value) : incl a b -> forallb vv b = true -> forallb vv a = true.
Proof. intros H Hb. rewrite forallb_forall in *. auto. Qed.
Lemma sv_flat_map (f : char -> str) s : (forall c, valid_char c = true -> sv (f c) = true) -> sv s = true -> sv (flat_map f s) = true.
Proof.
  intro Hf. induction s as [|c t IH]; [reflexivity|]. rewrite sv_cons. intro H. apply andb_true_iff in H as [H1 H2].
  cbn [flat_map]. rewrite sv_app, (Hf c H1), IH by exact H2. reflexivity.
Qed.
Lemma sv_rev s : sv (rev s) = sv s.
Proof. unfold sv. apply eq_true_iff_eq. rewrite !forallb_forall. split; intros H x Hx; apply H; [apply in_rev in Hx|apply in_rev]; assumption. Qed.
Lemma sv_firstn n s : sv s = true -> sv (firstn n s) = true.
Proof. apply forallb_firstn. Qed.
Lemma sv_skipn n s : sv s = true -> sv (skipn n s) = true.
Proof. apply forallb_skipn. Qed.
Lemma sv_filter p s : sv s = true -> sv (filter p s) = true.
Proof. intro H. eapply sv_incl; [apply incl_filter|exact H]. Qed.

(* ---- the string primitives ---- *)
Lemma trim_start_sv s : sv s = true -> sv (trim_start s) = true.
Proof. induction s as [|c t IH]; [reflexivity|]. cbn [trim_start]. destruct (is_whitespace c); [|auto]. rewrite sv_cons. intro H. apply andb_true_iff in H as [_ H]. auto. Qed.
Lemma trim_end_sv s : sv s = true -> sv (trim_end s) = true.
Proof. intro H. unfold trim_end. rewrite sv_rev. apply trim_start_sv. rewrite sv_rev. exact H. Qed.
Lemma trim_sv s : sv s = true -> sv (trim s) = true.
Proof. intro H. unfold trim. apply trim_end_sv, trim_start_sv, H. Qed.
Lemma replace_go_sv a b : sv b = true -> forall s d, sv s = true -> sv (replace_go a b s d) = true.
Proof.
  intro Hb. induction s as [|c t IH]; intros d H; [reflexivity|]. rewrite sv_cons in H. apply andb_true_iff in H as [H1 H2].
  cbn [replace_go]. destruct d; [|auto]. destruct (prefixb a (c :: t)); [rewrite sv_app, Hb, IH by exact H2; reflexivity|rewrite sv_cons, H1, IH by exact H2; reflexivity].
Qed.
Lemma replace_str_sv a b s : sv b = true -> sv s = true -> sv (replace_str a b s) = true.
Proof.
  intros Hb Hs. unfold replace_str. destruct a; [|apply replace_go_sv; assumption].
  rewrite sv_app, Hb. cbn [andb]. apply sv_flat_map; [|exact Hs]. intros c Hc. rewrite sv_cons, Hc, Hb. reflexivity.
Qed.
Lemma find_first_sv p : forall s cur x y, sv s = true -> sv cur = true -> find_first p s cur = Some (x, y) -> sv x = true /\ sv y = true.
Proof.
  induction s as [|c t IH]; intros cur x y Hs Hc E; cbn [find_first] in E.
  - destruct (prefixb p []); [|discriminate]. inversion E; subst. rewrite sv_rev. split; [exact Hc|apply sv_skipn; reflexivity].
  - destruct (prefixb p (c :: t)); [inversion E; subst; rewrite sv_rev; split; [exact Hc|apply sv_skipn; exact Hs]|].
    rewrite sv_cons in Hs. apply andb_true_iff in Hs as [H1 H2]. eapply IH; [exact H2| |exact E]. rewrite sv_cons, H1, Hc. reflexivity.
Qed.
Lemma split_go_sv p : forall s cur d, sv s = true -> sv cur = true -> forallb sv (split_go p s cur d) = true.
Proof.
  induction s as [|c t IH]; intros cur d Hs Hc; cbn [split_go forallb]; [rewrite sv_rev, Hc; reflexivity|].
  rewrite sv_cons in Hs. apply andb_true_iff in Hs as [H1 H2].
  destruct d; [|apply IH; assumption].
  destruct (prefixb p (c :: t)); [cbn [forallb]; rewrite sv_rev, Hc; cbn [andb]; apply IH; [exact H2|reflexivity]|].
  apply IH; [exact H2|]. rewrite sv_cons, H1, Hc. reflexivity.
Qed.
Lemma split_str_sv p s : sv s = true -> forallb sv (split_str p s) = true.
Proof.
  intro Hs. unfold split_str. destruct p; [|apply split_go_sv; [exact Hs|reflexivity]].
  cbn [forallb]. rewrite forallb_app. cbn [forallb andb]. rewrite andb_true_r.
  induction s as [|c t IH]; [reflexivity|]. rewrite sv_cons in Hs. apply andb_true_iff in Hs as [H1 H2]. cbn [map forallb].
  rewrite sv_cons, H1. cbn [sv forallb andb]. apply IH. exact H2.
Qed.
Lemma join_str_sv sep l : sv sep = true -> forallb sv l = true -> sv (join_str sep l) = true.
Proof.
  intro Hs. induction l as [|x t IH]; [reflexivity|]. cbn [forallb]. intro H. apply andb_true_iff in H as [H1 H2].
  cbn [join_str]. destruct t as [|y t']; [exact H1|]. rewrite !sv_app, H1, Hs. cbn [andb]. apply IH. exact H2.
Qed.
Lemma firstn_incl {A} n (l : list A) : incl (firstn n l) l.
Proof. revert l; induction n; intros l x Hx; [destruct Hx|]. destruct l; [destruct Hx|]. destruct Hx as [->|Hx]; [left; reflexivity|right; apply IHn; exact Hx]. Qed.
Lemma skipn_incl {A} n (l : list A) : incl (skipn n l) l.
Proof. revert l; induction n; intros l x Hx; [exact Hx|]. destruct l; [destruct Hx|]. right. apply IHn. exact Hx. Qed.
Lemma slice_list_incl {A} off len (l : list A) : incl (slice_list off len l) l.
Proof.
  unfold slice_list. destruct (_ <? 0)%Z; [apply incl_nil_l|].
  intros x Hx. apply firstn_incl in Hx. apply skipn_incl in Hx. exact Hx.
Qed.

Ltac dm := match goal with
  | |- context [match ?x with _ => _ end] =>
      lazymatch x with context [match _ with _ => _ end] => fail | _ => destruct x end
  end.

Section FV.
Variable O : oracle.
Hypothesis HO : oracle_valid O.

Lemma kstr_valid v : vv v = true -> sv (to_kstr O v) = true.
Proof. apply (render_sv O HO). Qed.
Lemma upper_str_sv s : sv s = true -> sv (upper_str O s) = true.
Proof. apply sv_flat_map. apply HO. Qed.
Lemma lower_str_sv s : sv s = true -> sv (lower_str O s) = true.
Proof. apply sv_flat_map. apply HO. Qed.
Lemma map_sstr_vv l : forallb sv l = true -> forallb vv (map sstr l) = true.
Proof. induction l as [|x t IH]; [reflexivity|]. cbn [forallb map]. intro H. apply andb_true_iff in H as [H1 H2]. cbn [sstr vv]. rewrite H1, IH by exact H2. reflexivity. Qed.
Lemma map_kstr_sv l : forallb vv l = true -> forallb sv (map (to_kstr O) l) = true.
Proof. induction l as [|x t IH]; [reflexivity|]. cbn [forallb map]. intro H. apply andb_true_iff in H as [H1 H2]. rewrite kstr_valid, IH by assumption. reflexivity. Qed.
Lemma uniq_go_incl l : forall seen, incl (uniq_go seen l) l.
Proof.
  induction l as [|x t IH]; intro seen; [apply incl_nil_l|]. cbn [uniq_go].
  destruct (existsb _ seen); [apply incl_tl, IH|]. intros y [->|Hy]; [left; reflexivity|right; eapply IH; exact Hy].
Qed.
Lemma insert_sorted_incl {A} (cmp : A -> A -> comparison) x l : incl (insert_sorted cmp x l) (x :: l).
Proof.
  induction l as [|h t IH]; [apply incl_refl|]. cbn [insert_sorted]. destruct (cmp x h); try apply incl_refl.
  intros y [->|Hy]; [right; left; reflexivity|]. apply IH in Hy. destruct Hy as [->|Hy]; [left; reflexivity|right; right; exact Hy].
Qed.
Lemma stable_sort_incl {A} (cmp : A -> A -> comparison) l : incl (stable_sort cmp l) l.
Proof.
  induction l as [|x t IH]; [apply incl_refl|]. unfold stable_sort. cbn [fold_right]. fold (stable_sort cmp t).
  intros y Hy. apply insert_sorted_incl in Hy. destruct Hy as [->|Hy]; [left; reflexivity|right; apply IH; exact Hy].
Qed.
Lemma sort_by_incl {A} (cmp : A -> A -> comparison) l r : sort_by cmp l = Ok r -> incl r l.
Proof. unfold sort_by. destruct (total_preorder_on cmp l); intro H; inversion H; subst. apply stable_sort_incl. Qed.
Lemma as_sequence_vv v : vv v = true -> forallb vv (as_sequence v) = true.
Proof. destruct v; cbn [as_sequence vv forallb]; intro H; rewrite ?H; try reflexivity; exact H. Qed.
Lemma prop_get_vv v p : vv v = true -> vv (prop_get v p) = true.
Proof.
  destruct v; cbn [prop_get]; intro H; try reflexivity. destruct (lookup p kvs) eqn:L; [|reflexivity].
  eapply lookup_vv; [exact H|exact L].
Qed.

Lemma math_filter_vv f v args r : math_filter O f v args = Ok r -> vv r = true.
Proof.
  unfold math_filter, num2, as_scalar.
  destruct f; destruct args as [|a [|b args]]; try discriminate;
    repeat (dm; try discriminate); intro H; inversion H; reflexivity.
Qed.

(* ---- html / url ---- *)
Lemma consts_valid : forallb (fun e => sv (snd e)) html_escapes = true /\ sv html_amp_escaped = true /\ sv html_amp_kept = true /\
  sv (snd url_decode_replace) = true.
Proof. vm_compute. repeat split; reflexivity. Qed.
Lemma assoc_c_sv c l e : forallb (fun e => sv (snd e)) l = true -> assoc_c c l = Some e -> sv e = true.
Proof.
  induction l as [|[d x] t IH]; cbn [assoc_c forallb snd]; intros H E; [discriminate|]. apply andb_true_iff in H as [H1 H2].
  destruct (N.eqb c d); [inversion E; subst; exact H1|auto].
Qed.
Lemma esc_sv once : forall s skip, sv s = true -> sv (esc once skip s) = true.
Proof.
  destruct consts_valid as [C1 [C2 [C3 _]]].
  induction s as [|c t IH]; intros skip H; [reflexivity|]. rewrite sv_cons in H. apply andb_true_iff in H as [H1 H2]. cbn [esc].
  destruct skip; [|rewrite sv_cons, H1, IH by exact H2; reflexivity].
  destruct (memb_c c html_specials); [|rewrite sv_cons, H1, IH by exact H2; reflexivity].
  destruct (assoc_c c html_escapes) eqn:A; [rewrite sv_app, (assoc_c_sv _ _ _ C1 A), IH by exact H2; reflexivity|].
  destruct (if once then nr_escaped t else 0); rewrite sv_app, ?C2, ?C3, IH by exact H2; reflexivity.
Qed.
Lemma encode_char_bytes c : valid_char c = true -> Forall (fun b => (b < 256)%N) (encode_char c).
Proof.
  unfold valid_char, encode_char. intro H.
  destruct (c <? 128)%N eqn:E1; [repeat constructor; lia|].
  destruct (c <? 2048)%N eqn:E2; [repeat constructor; lia|].
  destruct (c <? 65536)%N eqn:E3; repeat constructor; lia.
Qed.
Lemma encode_bytes s : sv s = true -> Forall (fun b => (b < 256)%N) (encode s).
Proof.
  induction s as [|c t IH]; [constructor|]. rewrite sv_cons. intro H. apply andb_true_iff in H as [H1 H2].
  unfold encode. cbn [flat_map]. apply Forall_app. split; [apply encode_char_bytes; exact H1|apply IH; exact H2].
Qed.
Lemma hex_digit_valid n : (n < 16)%N -> valid_char (hex_digit n) = true.
Proof. unfold hex_digit, valid_char. intro H. destruct (n <? 10)%N; lia. Qed.
Lemma pct_byte_sv b : (b < 256)%N -> sv (pct_byte b) = true.
Proof.
  intro H. unfold pct_byte. destruct (in_encode_set b) eqn:E.
  - rewrite !sv_cons. rewrite !hex_digit_valid by lia. reflexivity.
  - unfold in_encode_set in E. destruct (128 <=? b)%N eqn:E1; [discriminate|]. rewrite sv_cons. unfold valid_char. replace (b <? 55296)%N with true by lia. reflexivity.
Qed.
Lemma url_encode_sv s : sv s = true -> sv (url_encode_str s) = true.
Proof.
  intro H. unfold url_encode_str. pose proof (encode_bytes s H) as Hb. induction (encode s) as [|b t IH]; [reflexivity|].
  inversion Hb; subst. cbn [flat_map]. rewrite sv_app, pct_byte_sv, IH by assumption. reflexivity.
Qed.
Lemma url_decode_sv s r : url_decode_str s = Some r -> sv r = true.
Proof. unfold url_decode_str, decode. apply decode_valid. Qed.
Lemma strip_between_incl op cl : forall s, (forall m, incl (strip_between op cl m s) s) /\ (forall n, incl (strip_open op cl n s) s).
Proof.
  induction s as [|c t [IH1 IH2]]; [split; intros; apply incl_nil_l|]. split.
  - intro m. cbn [strip_between]. destruct m as [| |[|k]].
    + destruct (prefix_ci op (c :: t) && occurs_ci cl (skipn (length op) (c :: t))).
      * destruct (length op) as [|[|k]]; apply incl_tl; auto.
      * apply incl_cons; [left; reflexivity|apply incl_tl; auto].
    + destruct (prefix_ci cl (c :: t)); apply incl_tl; auto.
    + apply incl_cons; [left; reflexivity|apply incl_tl; auto].
    + apply incl_tl; auto.
  - intro n. cbn [strip_open]. destruct n as [|[|k]]; apply incl_tl; auto.
Qed.
Lemma strip_html_sv s : sv s = true -> sv (strip_html_str s) = true.
Proof.
  intro H. unfold strip_html_str.
  repeat (eapply sv_incl; [apply strip_between_incl|]). exact H.
Qed.
Lemma html_filter_vv f v r : vv v = true -> html_filter O f v = Ok r -> vv r = true.
Proof.
  intros Hv. pose proof (kstr_valid v Hv) as Hk. destruct f; cbn [html_filter].
  - destruct v; intro E; inversion E; subst; try reflexivity; cbn [vv]; apply esc_sv; exact Hk.
  - destruct v; intro E; inversion E; subst; try reflexivity; cbn [vv]; apply esc_sv; exact Hk.
  - destruct v; intro E; inversion E; subst; try reflexivity; cbn [vv]; apply url_encode_sv; exact Hk.
  - destruct v; try (destruct (url_decode_str _) eqn:D); intro E; inversion E; subst; try reflexivity; cbn [vv]; eapply url_decode_sv; exact D.
  - intro E. inversion E; subst. cbn [vv]. apply strip_html_sv. exact Hk.
Qed.

Lemma graphemes_sv s : sv s = true -> forallb sv (graphemes O s) = true.
Proof. destruct HO as [_ [_ [_ H]]]. apply H. Qed.
Lemma upper_c_sv c : valid_char c = true -> sv (upper_c O c) = true.
Proof. destruct HO as [_ [H _]]. apply H. Qed.
Lemma slice_sv off len s : sv s = true -> sv (slice_list off len s) = true.
Proof. intro H. eapply sv_incl; [apply slice_list_incl|exact H]. Qed.
Lemma slice_vv off len l : forallb vv l = true -> forallb vv (slice_list off len l) = true.
Proof. intro H. eapply vvl_incl; [apply slice_list_incl|exact H]. Qed.
Lemma br_sv s : sv s = true -> sv (flat_map (fun c => if N.eqb c 10 then k_br else [c]) s) = true.
Proof. apply sv_flat_map. intros c Hc. destruct (N.eqb c 10); [reflexivity|rewrite sv_cons, Hc; reflexivity]. Qed.

Lemma sstr_vv s : sv s = true -> vv (sstr s) = true.
Proof. intro H. exact H. Qed.
Lemma varray_vv l : forallb vv l = true -> vv (VArray l) = true.
Proof. intro H. exact H. Qed.
Ltac split_ands := repeat match goal with
  | H : _ && _ = true |- _ => apply andb_true_iff in H; destruct H
  | H : sv (_ :: _) = true |- _ => rewrite sv_cons in H
  end.
Ltac sv_step :=
  first [ assumption | reflexivity
        | rewrite sv_app | rewrite sv_cons | apply andb_true_intro; split
        | apply trim_sv | apply trim_start_sv | apply trim_end_sv | apply replace_str_sv
        | apply sv_filter | apply sv_firstn | apply sv_skipn | apply join_str_sv
        | apply upper_str_sv | apply lower_str_sv | apply kstr_valid
        | apply map_sstr_vv | apply split_str_sv | apply split_go_sv | apply map_kstr_sv
        | apply sv_concat | apply forallb_firstn | apply forallb_rev | apply graphemes_sv | apply upper_c_sv
        | apply slice_sv | apply slice_vv | apply br_sv | rewrite sv_rev ].
Ltac gen_counts := repeat match goal with |- context [firstn ?n _] => tryif is_var n then fail else (let m := fresh "m" in generalize n; intro m) end.
Ltac sv_solve := gen_counts; repeat first [ match goal with |- vv (sstr _) = true => apply sstr_vv | |- vv (VArray _) = true => apply varray_vv end | sv_step].
Ltac pre :=
  repeat match goal with
  | |- context [find_first ?p ?s ?c] =>
      let E := fresh "Eff" in destruct (find_first p s c) as [[? ?]|] eqn:E;
      [destruct (find_first_sv p s c _ _ ltac:(sv_solve) ltac:(reflexivity) E)|]
  | |- context [match ?x with _ => _ end] =>
      lazymatch x with context [match _ with _ => _ end] => fail | _ => destruct x eqn:? end
  end.
Lemma rev_head_in {A} (l : list A) x t : rev l = x :: t -> In x l.
Proof. intro H. apply in_rev. rewrite H. left. reflexivity. Qed.
Lemma vv_of_in l x : forallb vv l = true -> In x l -> vv x = true.
Proof. intros H Hx. rewrite forallb_forall in H. auto. Qed.
Lemma sv_char_in s c : sv s = true -> In c s -> valid_char c = true.
Proof. unfold sv. intros H Hx. rewrite forallb_forall in H. auto. Qed.
Lemma map_prop_vv p l : forallb vv l = true ->
  forallb vv (flat_map (fun v0 => match v0 with VObject kvs => match lookup p kvs with Some x => [x] | None => [] end | _ => [] end) l) = true.
Proof.
  induction l as [|x t IH]; [reflexivity|]. cbn [forallb flat_map]. intro H. apply andb_true_iff in H as [H1 H2].
  rewrite forallb_app, IH by exact H2. rewrite andb_true_r.
  destruct x; try reflexivity. destruct (lookup p kvs) eqn:L; [|reflexivity]. cbn [forallb]. rewrite (lookup_vv _ _ _ H1 L). reflexivity.
Qed.
Lemma keyed_sort_incl {K} (cmp : (K * value) -> (K * value) -> comparison) (kf : value -> K) l a :
  sort_by cmp (map (fun v => (kf v, v)) l) = Ok a -> incl (map snd a) l.
Proof.
  intro H. apply sort_by_incl in H. intros x Hx. apply in_map_iff in Hx as [[k y] [E Hy]]. cbn [snd] in E. subst y.
  apply H in Hy. apply in_map_iff in Hy as [z [Ez Hz]]. inversion Ez; subst. exact Hz.
Qed.

Lemma seq_filter_vv f v args r : vv v = true -> forallb vv args = true -> seq_filter O f v args = Ok r -> vv r = true.
Proof.
  intros Hv Ha. pose proof (kstr_valid v Hv) as Hs. unfold seq_filter.
  destruct f; destruct args as [|a [|b [|c args]]]; cbn [forallb] in Ha; split_ands; try discriminate.
  all: try (gen_counts; intro E; injection E as E; subst r; sv_solve; fail).
  all: cbn [nth_error opt_int]; unfold bind; pre; cbn [vv forallb] in *; split_ands; try discriminate.
  all: try (gen_counts; intro E; injection E as E; subst r; sv_solve; fail).
  all: intro E; injection E as E; subst r.
  all: try (match goal with H : rev _ = _ :: _ |- _ => apply rev_head_in in H end).
  all: try (eapply vv_of_in; eassumption).
  all: try (apply sstr_vv; rewrite sv_cons; erewrite sv_char_in by eassumption; reflexivity).
  all: try (apply varray_vv; eapply vvl_incl; [first [apply uniq_go_incl | apply incl_filter]|]; cbn [forallb]; sv_solve; fail).
  all: try (apply varray_vv; rewrite forallb_app; sv_solve; fail).
  all: try (apply varray_vv; apply map_prop_vv; assumption).
  all: try (apply varray_vv; match goal with H : sort_by _ (as_sequence _) = Ok _ |- _ => apply sort_by_incl in H; eapply vvl_incl; [exact H|apply as_sequence_vv; assumption] end).
  - match goal with |- context [if ?b then _ else _] => destruct b end; cbn [vv forallb]; rewrite ?Hv; reflexivity.
  - match goal with |- context [if ?b then _ else _] => destruct b end; cbn [vv forallb]; rewrite ?Hv; reflexivity.
  - apply varray_vv. match goal with H : sort_by _ _ = Ok _ |- _ => apply keyed_sort_incl in H; eapply vvl_incl; [exact H|apply as_sequence_vv; assumption] end.
  - apply varray_vv. match goal with H : sort_by _ _ = Ok _ |- _ => apply keyed_sort_incl in H; eapply vvl_incl; [exact H|apply as_sequence_vv; assumption] end.
Qed.

(* the date filter: the input itself, or what strftime wrote from a valid format *)
Lemma date_filter_vv v args r : vv v = true -> forallb vv args = true -> date_filter O v args = Ok r -> vv r = true.
Proof.
  intros Hv Ha E. unfold date_filter in E. destruct args as [|a [|b args']]; try discriminate.
  cbn [forallb] in Ha. apply andb_true_iff in Ha as [Ha _].
  pose proof (kstr_valid a Ha) as Hf.
  destruct v; try (inversion E; subst; exact Hv).
  destruct (to_date_time O s) as [t|]; [|inversion E; subst; exact Hv].
  destruct (to_kstr O a) as [|c fmt] eqn:Ek; [inversion E; subst; exact Hv|].
  destruct (Strftime.strftime t (c :: fmt)) as [o| | |] eqn:Es; try discriminate. inversion E; subst.
  cbn [vv]. eapply strftime_sv; [exact Hf|exact Es].
Qed.
(* the jekyll / shopify filters *)
Lemma forallb_removelast {A} (f : A -> bool) l : forallb f l = true -> forallb f (removelast l) = true.
Proof.
  induction l as [|x [|y t] IH]; try reflexivity. intro H. cbn [forallb] in H. apply andb_true_iff in H as [H1 H2].
  change (removelast (x :: y :: t)) with (x :: removelast (y :: t)). cbn [forallb]. rewrite H1. apply IH, H2.
Qed.
Lemma sentence_tail_sv conn l : sv conn = true -> forallb vv l = true -> sv (sentence_tail O conn l) = true.
Proof.
  intros Hc. induction l as [|v [|w t] IH]; intro H; [reflexivity| |].
  - cbn [forallb] in H. apply andb_true_iff in H as [Hv _]. cbn [sentence_tail]. rewrite !sv_app, Hc, (render_sv O HO v Hv). reflexivity.
  - cbn [forallb] in H. apply andb_true_iff in H as [Hv Ht].
    change (sentence_tail O conn (v :: w :: t)) with ([44;32]%N ++ Value.render O v ++ sentence_tail O conn (w :: t)).
    rewrite !sv_app, (render_sv O HO v Hv), (IH Ht). reflexivity.
Qed.
Lemma extra_filter_vv f v args r : vv v = true -> forallb vv args = true -> extra_filter O f v args = Ok r -> vv r = true.
Proof.
  intros Hv Ha E. unfold extra_filter in E.
  destruct f; destruct args as [|a [|b [|c args']]]; try discriminate; destruct v; try discriminate;
    cbn [forallb vv] in *; repeat match goal with H : _ && _ = true |- _ => apply andb_true_iff in H as [? ?] end.
  - inversion E; subst. cbn [vv]. rewrite forallb_app. cbn [forallb]. rewrite Hv. rewrite H. reflexivity.
  - inversion E; subst. cbn [vv]. apply forallb_removelast, Hv.
  - inversion E; subst. cbn [vv]. destruct l; [reflexivity|]. cbn [forallb tl] in *. apply andb_true_iff in Hv as [_ Hv]. exact Hv.
  - inversion E; subst. cbn [vv forallb]. rewrite H, Hv. reflexivity.
  - destruct l as [|x t]; inversion E; subst; [reflexivity|]. cbn [forallb] in Hv. apply andb_true_iff in Hv as [Hx Ht].
    cbn [vv]. rewrite sv_app, (kstr_valid x Hx). apply sentence_tail_sv; [reflexivity|exact Ht].
  - destruct l as [|x t]; inversion E; subst; [reflexivity|]. cbn [forallb] in Hv. apply andb_true_iff in Hv as [Hx Ht].
    cbn [vv]. rewrite sv_app, (kstr_valid x Hx). apply sentence_tail_sv; [apply kstr_valid; assumption|exact Ht].
  - destruct (to_integer s); [|discriminate]. inversion E; subst. destruct (z =? 1)%Z; assumption.
Qed.
(* what FV of ValidProofs.v asks for *)
Theorem apply_filter_vv f v args r : vv v = true -> forallb vv args = true -> apply_filter O f v args = Ok r -> vv r = true.
Proof.
  intros Hv Ha. destruct f; cbn [apply_filter].
  - apply math_filter_vv.
  - destruct args; [apply html_filter_vv; exact Hv|discriminate].
  - apply seq_filter_vv; assumption.
  - apply date_filter_vv; assumption.
  - apply extra_filter_vv; assumption.
Qed.
End FV.

(* ---- C02: the whole statement, for the modelled filters ---- *)
Section Full.
Variable O : oracle.
Hypothesis HO : oracle_valid O.
Variable ps : pstore.
Hypothesis ps_ok : forall name, match ps name with Ok b => twf b /\ tvalid b | Panic _ => False | _ => True end.
Theorem render_panic_free depth t data k : twf t -> tvalid t -> ov data = true ->
  match render_top O ps depth t data k with
  | (OPanicked n, _, _) => n = site_sort_unspecified
  | _ => True
  end.
Proof. exact (render_top_panic_free O HO (apply_filter_vv O HO) ps ps_ok depth t data k). Qed.
Theorem render_output_utf8 depth t data : twf t -> tvalid t -> ov data = true ->
  match render_top O ps depth t data sink0 with
  | (_, _, k') => exists text, forallb valid_char text = true /\ acc k' = encode text /\ decode (acc k') = Some text
  end.
Proof. exact (output_is_utf8 O HO (apply_filter_vv O HO) ps ps_ok depth t data). Qed.
End Full.
