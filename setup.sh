#!/bin/bash
# Build the framework from files on disk only (offline): Coq development, extracted driver, Rust harness.
set -e
cd "$(dirname "$0")"
export CARGO_NET_OFFLINE=true
mkdir -p .cache evidence
( cd coq && coq_makefile -f _CoqProject -o Makefile > /dev/null && timeout 3000 make -j16 > ../.cache/coq_build.log 2>&1 ) || { tail -30 .cache/coq_build.log; exit 1; }
cp -n /repo/Cargo.lock harness/Cargo.lock 2>/dev/null || true
( cd harness && RUSTFLAGS="--cfg liquid_verif -Awarnings" timeout 3000 cargo build --offline > ../.cache/harness_debug.log 2>&1 ) || { tail -30 .cache/harness_debug.log; exit 1; }
( cd harness && RUSTFLAGS="--cfg liquid_verif -Awarnings" timeout 3000 cargo build --offline --release > ../.cache/harness_release.log 2>&1 ) || { tail -30 .cache/harness_release.log; exit 1; }
python3 - <<'PY'
import sys
sys.path.insert(0, "tools")
import lv
ok, binp, out, dt = lv.build_driver()
print("driver:", ok, binp)
sys.exit(0 if ok else 1)
PY
echo "setup ok"
