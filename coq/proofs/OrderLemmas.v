(* Order facts about str_cmp, SFcompare, and the key-sorted entry lists used by value_cmp. *)
From Coq Require Import SpecFloat Permutation Sorted.
From LV Require Import Base Value BaseLemmas.

Lemma str_cmp_refl a : str_cmp a a = Eq.
Proof. induction a as [|x a IH]; simpl; [reflexivity|]. rewrite N.compare_refl. exact IH. Qed.
Lemma str_cmp_eq a b : str_cmp a b = Eq <-> a = b.
Proof.
  split; [|intros ->; apply str_cmp_refl].
  revert b; induction a as [|x a IH]; intros [|y b]; simpl; try discriminate; [reflexivity|].
  destruct (N.compare_spec x y) as [E|E|E]; try discriminate. intro H. subst. f_equal. apply IH; assumption.
Qed.
Lemma str_cmp_antisym a b : str_cmp b a = CompOpp (str_cmp a b).
Proof.
  revert b; induction a as [|x a IH]; intros [|y b]; simpl; try reflexivity.
  rewrite (N.compare_antisym x y). destruct (N.compare x y); simpl; auto.
Qed.
Lemma str_cmp_lt_trans a b c : str_cmp a b = Lt -> str_cmp b c = Lt -> str_cmp a c = Lt.
Proof.
  revert b c; induction a as [|x a IH]; intros [|y b] [|z c]; simpl; try discriminate; try reflexivity.
  destruct (N.compare_spec x y) as [E1|E1|E1]; try discriminate;
  destruct (N.compare_spec y z) as [E2|E2|E2]; try discriminate; intros H1 H2.
  - subst. rewrite N.compare_refl. eapply IH; eassumption.
  - subst. destruct (N.compare_spec z z); try lia. 
    destruct (N.compare_spec y z); try lia; reflexivity.
  - subst. destruct (N.compare_spec x z); try lia; reflexivity.
  - destruct (N.compare_spec x z); try lia; reflexivity.
Qed.
Lemma str_eqb_cmp a b : str_eqb a b = true <-> str_cmp a b = Eq.
Proof. rewrite str_cmp_eq. destruct (str_eqb_spec a b); split; congruence. Qed.

(* ---- SFcompare ---- *)
Lemma Pcompare_Eq_antisym m n : Pos.compare_cont Eq n m = CompOpp (Pos.compare_cont Eq m n).
Proof. apply Pos.compare_antisym. Qed.
Lemma SFcompare_antisym a b : SFcompare b a = option_map CompOpp (SFcompare a b).
Proof.
  destruct a as [s| s| |s m e], b as [t| t| |t n f]; simpl; try reflexivity;
    try (destruct s; reflexivity); try (destruct t; reflexivity); try (destruct s, t; reflexivity).
  destruct s, t; simpl; try reflexivity; rewrite (Z.compare_antisym e f); destruct (Z.compare e f); simpl;
    try reflexivity; f_equal; rewrite (Pos.compare_cont_antisym); simpl; try reflexivity.
  rewrite CompOpp_involutive. reflexivity.
Qed.
Lemma f_eqb_sym a b : f_eqb a b = f_eqb b a.
Proof. unfold f_eqb. rewrite (SFcompare_antisym a b). destruct (SFcompare a b) as [[]|]; reflexivity. Qed.
Lemma SFcompare_refl a : f_is_nan a = false -> SFcompare a a = Some Eq.
Proof.
  destruct a as [s|s| |s m e]; simpl; try discriminate; intros _; try reflexivity; [destruct s; reflexivity|].
  destruct s; rewrite Z.compare_refl, Pos.compare_cont_refl; reflexivity.
Qed.

(* ---- key-sorted entry lists ---- *)
Lemma insert_kv_perm kv l : Permutation (insert_kv kv l) (kv :: l).
Proof.
  induction l as [|h t IH]; simpl; [reflexivity|].
  destruct (str_cmp (fst kv) (fst h)); try reflexivity.
  rewrite IH. apply perm_swap.
Qed.
Lemma sort_kvs_perm l : Permutation (sort_kvs l) l.
Proof. induction l as [|h t IH]; simpl; [reflexivity|]. rewrite insert_kv_perm. constructor; exact IH. Qed.
Lemma sort_kvs_length l : length (sort_kvs l) = length l.
Proof. apply Permutation_length, sort_kvs_perm. Qed.

Definition klt (a b : str * value) : Prop := str_cmp (fst a) (fst b) = Lt.
Lemma klt_trans a b c : klt a b -> klt b c -> klt a c.
Proof. unfold klt; apply str_cmp_lt_trans. Qed.

Lemma insert_kv_sorted kv l : ~ In (fst kv) (keys l) -> StronglySorted klt l -> StronglySorted klt (insert_kv kv l).
Proof.
  induction l as [|h t IH]; simpl; intros Hn Hs; [repeat constructor|].
  inversion Hs as [|? ? Hs' Hall]; subst.
  destruct (str_cmp (fst kv) (fst h)) eqn:E.
  - apply str_cmp_eq in E. exfalso; apply Hn; left; symmetry; exact E.
  - constructor; [assumption|]. constructor; [exact E|].
    rewrite Forall_forall in *. intros x Hx. eapply klt_trans; [exact E|apply Hall; exact Hx].
  - constructor.
    + apply IH; [intro H; apply Hn; right; exact H|assumption].
    + rewrite Forall_forall in *. intros x Hx.
      apply (Permutation_in _ (insert_kv_perm kv t)) in Hx. destruct Hx as [<-|Hx]; [|apply Hall; exact Hx].
      unfold klt. rewrite str_cmp_antisym, E. reflexivity.
Qed.
Lemma keys_perm (l l' : list (str * value)) : Permutation l l' -> Permutation (keys l) (keys l').
Proof. apply Permutation_map. Qed.
Lemma sort_kvs_sorted l : NoDup (keys l) -> StronglySorted klt (sort_kvs l).
Proof.
  induction l as [|h t IH]; simpl; intro H; [constructor|]. inversion H as [|? ? Hn Hd]; subst.
  apply insert_kv_sorted; [|apply IH; assumption].
  intro Hin. apply Hn. eapply Permutation_in; [apply keys_perm, sort_kvs_perm|exact Hin].
Qed.

(* strictly sorted lists with the same elements are equal *)
Lemma klt_irrefl a : ~ klt a a.
Proof. unfold klt; rewrite str_cmp_refl; discriminate. Qed.
Lemma sorted_perm_eq l l' : StronglySorted klt l -> StronglySorted klt l' -> Permutation l l' -> l = l'.
Proof.
  revert l'; induction l as [|a l IH]; intros l' Hs Hs' Hp.
  - apply Permutation_nil in Hp; subst; reflexivity.
  - destruct l' as [|b l']; [apply Permutation_sym, Permutation_nil in Hp; discriminate|].
    inversion Hs as [|? ? Hsl Ha]; inversion Hs' as [|? ? Hsl' Hb]; subst.
    rewrite Forall_forall in Ha, Hb.
    assert (a = b).
    { assert (Hina : In a (b :: l')) by (eapply Permutation_in; [exact Hp|left; reflexivity]).
      assert (Hinb : In b (a :: l)) by (eapply Permutation_in; [apply Permutation_sym; exact Hp|left; reflexivity]).
      destruct Hina as [->|Hina]; [reflexivity|]. destruct Hinb as [->|Hinb]; [reflexivity|].
      exfalso. apply (klt_irrefl a). eapply klt_trans; [apply Ha; exact Hinb|apply Hb; exact Hina]. }
    subst b. f_equal. apply IH; try assumption. eapply Permutation_cons_inv; exact Hp.
Qed.
(* the key-sorted entry list depends only on the set of entries: construction independence *)
Theorem sort_kvs_canonical l l' : NoDup (keys l) -> Permutation l l' -> sort_kvs l = sort_kvs l'.
Proof.
  intros Hn Hp. apply sorted_perm_eq.
  - apply sort_kvs_sorted; assumption.
  - apply sort_kvs_sorted. eapply Permutation_NoDup; [apply keys_perm; exact Hp|assumption].
  - eapply Permutation_trans; [apply sort_kvs_perm|]. eapply Permutation_trans; [exact Hp|]. apply Permutation_sym, sort_kvs_perm.
Qed.

Lemma lookup_perm {A} (l l' : list (str * A)) k : NoDup (keys l) -> Permutation l l' -> lookup k l = lookup k l'.
Proof.
  intros Hn Hp. assert (Hn' : NoDup (keys l')) by (eapply Permutation_NoDup; [apply Permutation_map; exact Hp|assumption]).
  destruct (lookup k l) as [v|] eqn:E.
  - apply lookup_some in E. symmetry. apply lookup_in; [assumption|]. eapply Permutation_in; eassumption.
  - destruct (lookup k l') as [v|] eqn:E'; [|reflexivity].
    apply lookup_some in E'. apply Permutation_sym in Hp.
    rewrite (lookup_in k v l Hn) in E; [discriminate|]. eapply Permutation_in; eassumption.
Qed.
