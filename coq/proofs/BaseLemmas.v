From LV Require Import Base.

Lemma str_eqb_spec (a b : str) : reflect (a = b) (str_eqb a b).
Proof.
  revert b; induction a as [|x a IH]; intros [|y b]; simpl; try (constructor; congruence).
  destruct (N.eqb_spec x y) as [E|E]; simpl.
  - destruct (IH b) as [E2|E2]; constructor; congruence.
  - constructor; congruence.
Qed.
Lemma str_eqb_refl a : str_eqb a a = true.
Proof. destruct (str_eqb_spec a a); congruence. Qed.
Lemma str_eqb_sym a b : str_eqb a b = str_eqb b a.
Proof. destruct (str_eqb_spec a b), (str_eqb_spec b a); congruence. Qed.

Section Assoc.
Context {A : Type}.
Implicit Types (o : list (str * A)).

Lemma lookup_in_keys k o : In k (keys o) <-> lookup k o <> None.
Proof.
  induction o as [|[y v] t IH]; simpl.
  - split; [intros []|intro H; apply H; reflexivity].
  - destruct (str_eqb_spec k y) as [E|E].
    + subst; split; [discriminate|auto].
    + rewrite <- IH. split; [intros [E'|H]; [symmetry in E'; contradiction|assumption]|auto].
Qed.
Lemma has_key_lookup k o : has_key k o = true <-> lookup k o <> None.
Proof. unfold has_key; destruct (lookup k o); split; congruence. Qed.
Lemma has_key_false k o : has_key k o = false <-> lookup k o = None.
Proof. unfold has_key; destruct (lookup k o); split; congruence. Qed.
Lemma lookup_upsert_same k (v : A) o : lookup k (upsert k v o) = Some v.
Proof.
  induction o as [|[y w] t IH]; simpl; [rewrite str_eqb_refl; reflexivity|].
  destruct (str_eqb_spec k y) as [E|E]; simpl; [rewrite str_eqb_refl; reflexivity|].
  destruct (str_eqb_spec k y); [contradiction|assumption].
Qed.
Lemma lookup_upsert_other k j (v : A) o : j <> k -> lookup j (upsert k v o) = lookup j o.
Proof.
  intro N. induction o as [|[y w] t IH]; simpl.
  - destruct (str_eqb_spec j k); [contradiction|reflexivity].
  - destruct (str_eqb_spec k y) as [E|E]; simpl.
    + subst. destruct (str_eqb_spec j y); [contradiction|reflexivity].
    + destruct (str_eqb_spec j y); [reflexivity|assumption].
Qed.
Lemma lookup_in k v o : NoDup (keys o) -> In (k, v) o -> lookup k o = Some v.
Proof.
  induction o as [|[k' v'] t IH]; simpl; intros Hn Hi; [contradiction|].
  inversion Hn as [|? ? Hnot Hnd]; subst. destruct Hi as [E|Hi].
  - inversion E; subst. rewrite str_eqb_refl; reflexivity.
  - destruct (str_eqb_spec k k') as [E|E];
      [subst; exfalso; apply Hnot; apply in_map_iff; exists (k', v); auto|auto].
Qed.
Lemma lookup_some k v o : lookup k o = Some v -> In (k, v) o.
Proof.
  induction o as [|[k' v'] t IH]; simpl; [discriminate|].
  destruct (str_eqb_spec k k'); intro H; [inversion H; subst; auto|auto].
Qed.
Lemma in_keys k o : In k (keys o) -> exists v, In (k, v) o.
Proof. unfold keys; intro H; apply in_map_iff in H as [[k' v] [E Hi]]; simpl in E; subst; eauto. Qed.
End Assoc.

Lemma mem_str_in k l : mem_str k l = true <-> In k l.
Proof.
  induction l as [|x t IH]; simpl; [split; [discriminate|tauto]|].
  rewrite orb_true_iff, IH. destruct (str_eqb_spec k x) as [E|E]; split; intros [H|H]; auto; try discriminate.
Qed.
