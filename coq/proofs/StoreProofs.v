(* Proofs about model/Partials.v (C09, C19, C20). *)
From LV Require Import Base BaseLemmas Partials.

Section P.
Variable src tmpl : Type.
Variable compile : src -> res tmpl.
Notation source := (source src).
Notation cache := (cache tmpl).

(* the lazy cache only ever holds compile results of the source: cache is a sub-graph of compile o source *)
Definition cache_inv (s : source) (c : cache) : Prop :=
  forall n r, lookup n c = Some r -> exists t, lookup n s = Some t /\ r = compile t.

Lemma cache_inv_empty s : cache_inv s [].
Proof. intros n r H. discriminate. Qed.
Lemma cache_inv_upsert s c n t : cache_inv s c -> lookup n s = Some t -> cache_inv s (upsert n (compile t) c).
Proof.
  intros H Hs m r Hm. destruct (str_eqb_spec m n) as [->|N].
  - rewrite lookup_upsert_same in Hm. inversion Hm; subst. eauto.
  - rewrite lookup_upsert_other in Hm by exact N. eauto.
Qed.
Theorem lazy_get_inv s c n : cache_inv s c ->
  fst (lazy_get src tmpl compile s c n) = ondemand_get src tmpl compile s n /\ cache_inv s (snd (lazy_get src tmpl compile s c n)).
Proof.
  intro H. unfold lazy_get, ondemand_get. destruct (lookup n c) as [r|] eqn:L.
  - destruct (H n r L) as [t [Hs ->]]. rewrite Hs. simpl. auto.
  - destruct (lookup n s) as [t|] eqn:Ls; simpl; [split; [reflexivity|apply cache_inv_upsert; assumption]|auto].
Qed.
Theorem lazy_try_get_inv s c n : cache_inv s c ->
  fst (lazy_try_get src tmpl compile s c n) = ondemand_try_get src tmpl compile s n /\ cache_inv s (snd (lazy_try_get src tmpl compile s c n)).
Proof.
  intro H. unfold lazy_try_get, ondemand_try_get. destruct (lookup n c) as [r|] eqn:L.
  - destruct (H n r L) as [t [Hs ->]]. rewrite Hs. simpl. auto.
  - destruct (lookup n s) as [t|] eqn:Ls; simpl; [split; [reflexivity|apply cache_inv_upsert; assumption]|auto].
Qed.
Lemma lazy_step_inv s c q : cache_inv s c ->
  fst (lazy_step src tmpl compile s c q) = ondemand_answer src tmpl compile s q /\ cache_inv s (snd (lazy_step src tmpl compile s c q)).
Proof.
  intro H. destruct q as [n|n|n]; simpl.
  - destruct (lazy_get_inv s c n H) as [E I]. destruct (lazy_get src tmpl compile s c n); simpl in *. subst. auto.
  - destruct (lazy_try_get_inv s c n H) as [E I]. destruct (lazy_try_get src tmpl compile s c n); simpl in *. subst. auto.
  - auto.
Qed.

(* C19: for every sequence of calls the lazy store answers exactly like the on-demand store *)
Theorem lazy_equiv_ondemand s : forall qs c, cache_inv s c ->
  fst (lazy_run src tmpl compile s c qs) = map (ondemand_answer src tmpl compile s) qs /\
  cache_inv s (snd (lazy_run src tmpl compile s c qs)).
Proof.
  induction qs as [|q t IH]; intros c H; [simpl; auto|]. cbn [lazy_run].
  destruct (lazy_step_inv s c q H) as [E I]. destruct (lazy_step src tmpl compile s c q) as [a c']. simpl in *.
  destruct (IH c' I) as [E2 I2]. destruct (lazy_run src tmpl compile s c' t) as [r c'']. simpl in *. subst. auto.
Qed.
(* ... and so does the eager store (names of an in-memory source are its keys) *)
Lemma lookup_eager_build s n : lookup n (eager_build src tmpl compile s) = option_map compile (lookup n s).
Proof. induction s as [|[k t] s IH]; simpl; [reflexivity|]. destruct (str_eqb n k); [reflexivity|exact IH]. Qed.
Theorem eager_equiv_ondemand s q : eager_answer src tmpl s (eager_build src tmpl compile s) q = ondemand_answer src tmpl compile s q.
Proof.
  destruct q as [n|n|n]; simpl; unfold eager_get, eager_try_get, ondemand_get, ondemand_try_get, contains, has_key;
    rewrite lookup_eager_build; destruct (lookup n s); reflexivity.
Qed.
(* building any of the stores never fails, whatever the sources contain *)
Theorem build_never_fails s : exists st, eager_build src tmpl compile s = st /\ length st = length s.
Proof. eexists; split; [reflexivity|apply map_length]. Qed.
(* repeated use gives the same result as the first use *)
Theorem repeat_same s c n : cache_inv s c ->
  let (r1, c1) := lazy_get src tmpl compile s c n in fst (lazy_get src tmpl compile s c1 n) = r1.
Proof.
  intro H. destruct (lazy_get_inv s c n H) as [E I]. destruct (lazy_get src tmpl compile s c n) as [r1 c1]. simpl in *.
  destruct (lazy_get_inv s c1 n I) as [E2 _]. congruence.
Qed.

(* C09: whatever was rendered before (any history of calls), the store seen by the next render is the
   same function of the sources *)
Theorem history_independent s : forall history c0, cache_inv s c0 -> forall n,
  fst (lazy_get src tmpl compile s (snd (lazy_run src tmpl compile s c0 history)) n) = ondemand_get src tmpl compile s n.
Proof.
  intros history c0 H n. destruct (lazy_equiv_ondemand s history c0 H) as [_ I]. apply (lazy_get_inv s _ n I).
Qed.

(* C20: every interleaving of the threads' calls gives every call the answer it would get alone *)
Theorem schedule_independent s : forall sched ts c, cache_inv s c ->
  Forall (fun e => snd e = ondemand_answer src tmpl compile s (snd (fst e))) (sched_run src tmpl compile s c ts sched).
Proof.
  induction sched as [|i rest IH]; intros ts c H; [constructor|]. cbn [sched_run].
  destruct (take_next ts i) as [[q ts']|]; [|apply IH; exact H].
  destruct (lazy_step_inv s c q H) as [E I]. destruct (lazy_step src tmpl compile s c q) as [a c']. simpl in *.
  constructor; [simpl; exact E|apply IH; exact I].
Qed.
End P.
