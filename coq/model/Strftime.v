(* Strftime.v — crates/core/src/model/scalar/datetime/strftime.rs (the hand-written strftime
   interpreter behind the `date` filter), the calendar functions of the `time` crate it calls
   (modelled by the standard civil-calendar formulas), and the default print/parse forms of
   datetime.rs.  Executable definitions only; proofs in proofs/DateProofs.v.
   The format is a list of characters; the implementation's byte offsets only matter for the
   echo of an unknown directive, which (after the repair) is the text consumed so far. *)
From LV Require Export Value.

(* ---- calendar (time::Date) ---- *)
Definition is_leap (y : Z) : bool := ((y mod 4 =? 0) && negb (y mod 100 =? 0) || (y mod 400 =? 0))%Z.
Definition cum_days (m : Z) : Z :=
  nth (Z.to_nat (m - 1)) [0;31;59;90;120;151;181;212;243;273;304;334]%Z 0%Z.
Definition days_in_month (y m : Z) : Z :=
  if (m =? 2)%Z then (if is_leap y then 29 else 28)%Z
  else if ((m =? 4) || (m =? 6) || (m =? 9) || (m =? 11))%Z then 30%Z else 31%Z.
Definition ordinal (d : date) : Z :=
  (cum_days (d_month d) + d_day d + (if is_leap (d_year d) && (2 <? d_month d) then 1 else 0))%Z.
(* Monday = 0 ... Sunday = 6; 1970-01-01 was a Thursday *)
Definition wd_mon0 (d : date) : Z := ((date_days d + 3) mod 7)%Z.
Definition wd_from_sunday (d : date) : Z := ((wd_mon0 d + 1) mod 7)%Z.
Definition sunday_week (d : date) : Z := ((ordinal d - wd_from_sunday d + 6) / 7)%Z.
Definition monday_week (d : date) : Z := ((ordinal d - wd_mon0 d + 6) / 7)%Z.
Definition weeks_in_year (y : Z) : Z :=
  let jan1 := wd_mon0 (mkDate y 1 1) in
  if ((jan1 =? 3) || (is_leap y && (jan1 =? 2)))%Z then 53%Z else 52%Z.
Definition iso_year_week (d : date) : Z * Z :=
  let y := d_year d in
  let w := ((ordinal d + 10 - (wd_mon0 d + 1)) / 7)%Z in
  if (w =? 0)%Z then ((y - 1)%Z, weeks_in_year (y - 1))
  else if ((w =? 53) && (weeks_in_year y =? 52))%Z then ((y + 1)%Z, 1%Z)
  else (y, w).
Definition unix_ts (t : datetime) : Z :=
  (date_days (dt_date t) * 86400 + dt_hour t * 3600 + dt_min t * 60 + dt_sec t - dt_off t)%Z.
Definition valid_date (d : date) : bool :=
  ((1 <=? d_month d) && (d_month d <=? 12) && (1 <=? d_day d) && (d_day d <=? days_in_month (d_year d) (d_month d)))%Z.
Definition valid_dt (t : datetime) : bool :=
  (valid_date (dt_date t) && (0 <=? dt_hour t) && (dt_hour t <? 24) && (0 <=? dt_min t) && (dt_min t <? 60)
   && (0 <=? dt_sec t) && (dt_sec t <? 60) && (0 <=? dt_nano t) && (dt_nano t <? 1000000000))%Z.

Definition month_names : list str := [[74;97;110;117;97;114;121]%N; [70;101;98;114;117;97;114;121]%N; [77;97;114;99;104]%N; [65;112;114;105;108]%N; [77;97;121]%N; [74;117;110;101]%N; [74;117;108;121]%N; [65;117;103;117;115;116]%N; [83;101;112;116;101;109;98;101;114]%N; [79;99;116;111;98;101;114]%N; [78;111;118;101;109;98;101;114]%N; [68;101;99;101;109;98;101;114]%N].
Definition weekday_names : list str := [[77;111;110;100;97;121]%N; [84;117;101;115;100;97;121]%N; [87;101;100;110;101;115;100;97;121]%N; [84;104;117;114;115;100;97;121]%N; [70;114;105;100;97;121]%N; [83;97;116;117;114;100;97;121]%N; [83;117;110;100;97;121]%N].
Definition month_name (m : Z) : str := nth (Z.to_nat (m - 1)) month_names [].
Definition weekday_name (w : Z) : str := nth (Z.to_nat w) weekday_names [].

(* ---- the interpreter ---- *)
Inductive pstyle := PDefault | PZero | PSpace.
Inductive casing := CDefault | CUpper | CChange.
Record flags := mkFlags { use_pad : bool; pst : pstyle; cas : casing }.
Definition flags0 := mkFlags true PDefault CDefault.
Definition pstyle_eqb (a b : pstyle) : bool :=
  match a, b with PDefault, PDefault | PZero, PZero | PSpace, PSpace => true | _, _ => false end.
Definition cas_default (c : casing) : bool := match c with CDefault => true | _ => false end.

Definition c_pct : char := 37%N.
Definition ascii_upper (s : str) : str := map (fun c => if ((97 <=? c) && (c <=? 122))%N then (c - 32)%N else c) s.
Definition rep (c : char) (n : nat) : str := repeat c n.
Definition sat_sub (a b : nat) : nat := (a - b)%nat.

(* flags: '-', '_', '0', '^', '#' in any number and order; the last of a kind wins.
   None = the format ended (NoFormatSpecifier).  Returns the flags, the consumed flag characters
   and the rest, whose head is the first non-flag character. *)
Fixpoint eat_flags (l : str) (f : flags) (seen : str) : option (flags * str * str) :=
  match l with
  | [] => None
  | c :: t =>
      if (c =? 45)%N then eat_flags t (mkFlags false (pst f) (cas f)) (seen ++ [c])
      else if (c =? 95)%N then eat_flags t (mkFlags (use_pad f) PSpace (cas f)) (seen ++ [c])
      else if (c =? 48)%N then eat_flags t (mkFlags (use_pad f) PZero (cas f)) (seen ++ [c])
      else if (c =? 94)%N then eat_flags t (mkFlags (use_pad f) (pst f) CUpper) (seen ++ [c])
      else if (c =? 35)%N then eat_flags t (mkFlags (use_pad f) (pst f) CChange) (seen ++ [c])
      else Some (f, seen, l)
  end.
Fixpoint span_digits (l : str) : str * str :=
  match l with
  | c :: t => if is_digit c then let (a, b) := span_digits t in (c :: a, b) else ([], l)
  | [] => ([], [])
  end.
Definition usize_max : Z := 18446744073709551615%Z.

Inductive dres :=
| DOut (s : str)            (* text produced; flags' casing already applied where the directive says so *)
| DUnknown                  (* echo what was consumed *)
| DErr.

Definition digits_of (v : Z) : nat := length (show_Z (Z.abs v)).
(* Formats::Numeric *)
Definition fmt_numeric (f : flags) (width : option nat) (value : Z) (def_pad : nat) : str :=
  let neg := (value <? 0)%Z in
  let body := show_Z (Z.abs value) in
  if use_pad f then
    let digits := (digits_of value + (if neg then 1 else 0))%nat in
    let w := match width with Some w => w | None => (def_pad + (if neg then 1 else 0))%nat end in
    let padc := match pst f with PSpace => 32%N | _ => 48%N end in
    (if neg && negb (pstyle_eqb (pst f) PSpace) then [45%N] else [])
    ++ rep padc (sat_sub w digits)
    ++ (if neg && pstyle_eqb (pst f) PSpace then [45%N] else [])
    ++ body
  else (if neg then [45%N] else []) ++ body.
Definition alpha_padc (f : flags) : char := match pst f with PZero => 48%N | _ => 32%N end.
(* Formats::Alphabetical *)
Definition fmt_alpha (f : flags) (width : option nat) (s : str) : str :=
  let out := (match width with Some w => if use_pad f then rep (alpha_padc f) (sat_sub w (length s)) else [] | None => [] end) ++ s in
  if cas_default (cas f) then out else ascii_upper out.
(* composite directives: write_padding!(comp n) then the text; upper-cased unless the casing is the default *)
Definition fmt_comp (f : flags) (width : option nat) (n : nat) (s : str) : str :=
  let out := (match width with Some w => rep (alpha_padc f) (sat_sub w n) | None => [] end) ++ s in
  if cas_default (cas f) then out else ascii_upper out.
Definition fmt_literal (f : flags) (width : option nat) (c : char) : str :=
  (match width with Some w => if use_pad f then rep (alpha_padc f) (sat_sub w 1) else [] | None => [] end) ++ [c].
Definition pad2 (z : Z) : str := padz 2 z.
Definition rpad2 (z : Z) : str := pad_left 32%N 2 (show_Z z).      (* {:>2} *)
Definition hour12 (h : Z) : Z := if ((h =? 0) || (h =? 12))%Z then 12%Z else if (h <? 12)%Z then h else (h - 12)%Z.
Definition with_space_default (f : flags) : flags :=
  match pst f with PDefault => mkFlags (use_pad f) PSpace (cas f) | _ => f end.
(* %L / %N after the repair: the leading digits of the nine-digit fraction, zeros beyond *)
Definition fmt_fraction (ns : Z) (digits : nat) : str :=
  let shown := Nat.min digits 9 in
  pad_left 48%N shown (show_Z (ns / 10 ^ (Z.of_nat (9 - shown)))) ++ rep 48%N (digits - shown).
(* %z %Z %:z %::z *)
Definition fmt_offset (f : flags) (width : option nat) (off : Z) (hm_sep ms_sep : bool) : str :=
  let hours := Z.quot off 3600 in
  let mins := Z.abs (Z.rem (Z.quot off 60) 60) in
  let secs := Z.abs (Z.rem off 60) in
  let output_size := (1 + 2 + (if hm_sep then 1 else 0) + 2 + (if ms_sep then 3 else 0))%nat in
  let pad_width := Nat.max (sat_sub (match width with Some w => w | None => 0%nat end) output_size + 2) 2 in
  (if negb (pstyle_eqb (pst f) PSpace)
   then (if (off <? 0)%Z then 45%N else 43%N) :: pad_left 48%N pad_width (show_Z (Z.abs hours))
   else pad_left 32%N pad_width ((if (hours <? 0)%Z then 45%N else 43%N) :: show_Z (Z.abs hours)))
  ++ (if hm_sep then [58%N] else []) ++ pad2 mins
  ++ (if ms_sep then 58%N :: pad2 secs else []).

(* one directive character [c] with flags and width; [rest] is what follows it (only ':' looks ahead).
   Returns the result and what remains, plus the extra characters consumed by ':' *)
Definition directive (t : datetime) (f : flags) (width : option nat) (c : char) (rest : str) : dres * str * str :=
  let d := dt_date t in
  let y := d_year d in
  let num v p := (DOut (fmt_numeric f width v p), rest, []) in
  let numf f' v p := (DOut (fmt_numeric f' width v p), rest, []) in
  let alpha s := (DOut (fmt_alpha f width s), rest, []) in
  let comp n s := (DOut (fmt_comp f width n s), rest, []) in
  let hms := pad2 (dt_hour t) ++ [58%N] ++ pad2 (dt_min t) ++ [58%N] ++ pad2 (dt_sec t) in
  if (c =? 89)%N then num y 4%nat                                   (* Y *)
  else if (c =? 67)%N then num (Z.quot y 100) 2%nat                  (* C *)
  else if (c =? 121)%N then num (Z.rem y 100) 2%nat                  (* y *)
  else if (c =? 109)%N then num (d_month d) 2%nat                    (* m *)
  else if (c =? 100)%N then num (d_day d) 2%nat                      (* d *)
  else if (c =? 101)%N then numf (with_space_default f) (d_day d) 2%nat    (* e *)
  else if (c =? 119)%N then num (wd_from_sunday d) 0%nat             (* w *)
  else if (c =? 117)%N then num (wd_mon0 d + 1)%Z 0%nat              (* u *)
  else if (c =? 85)%N then num (sunday_week d) 2%nat                 (* U *)
  else if (c =? 87)%N then num (monday_week d) 2%nat                 (* W *)
  else if (c =? 71)%N then num (fst (iso_year_week d)) 4%nat         (* G *)
  else if (c =? 103)%N then num (Z.rem (fst (iso_year_week d)) 100) 2%nat   (* g *)
  else if (c =? 86)%N then num (snd (iso_year_week d)) 2%nat         (* V *)
  else if (c =? 106)%N then num (ordinal d) 3%nat                    (* j *)
  else if (c =? 72)%N then num (dt_hour t) 2%nat                     (* H *)
  else if (c =? 107)%N then numf (with_space_default f) (dt_hour t) 2%nat   (* k *)
  else if (c =? 73)%N then num (hour12 (dt_hour t)) 2%nat            (* I *)
  else if (c =? 108)%N then numf (with_space_default f) (hour12 (dt_hour t)) 2%nat   (* l *)
  else if (c =? 77)%N then num (dt_min t) 2%nat                      (* M *)
  else if (c =? 83)%N then num (dt_sec t) 2%nat                      (* S *)
  else if (c =? 115)%N then num (unix_ts t) 0%nat                    (* s *)
  else if ((c =? 98) || (c =? 104))%N then alpha (firstn 3 (month_name (d_month d)))   (* b h *)
  else if (c =? 66)%N then alpha (month_name (d_month d))            (* B *)
  else if (c =? 97)%N then alpha (firstn 3 (weekday_name (wd_mon0 d)))   (* a *)
  else if (c =? 65)%N then alpha (weekday_name (wd_mon0 d))          (* A *)
  else if ((c =? 80) || (c =? 112))%N then                            (* P p *)
    let is_am := (dt_hour t <? 12)%Z in
    let upper := ((c =? 112)%N && negb (match cas f with CChange => true | _ => false end))
                 || ((c =? 80)%N && negb (cas_default (cas f))) in
    let s := if upper then (if is_am then [65;77]%N else [80;77]%N) else (if is_am then [97;109]%N else [112;109]%N) in
    (DOut (fmt_alpha (mkFlags (use_pad f) (pst f) CDefault) width s), rest, [])
  else if (c =? 70)%N then comp 10%nat (padz 4 y ++ [45%N] ++ pad2 (d_month d) ++ [45%N] ++ pad2 (d_day d))   (* F *)
  else if (c =? 118)%N then                                           (* v: the month is always upper-cased *)
    (DOut (ascii_upper (fmt_comp (mkFlags (use_pad f) (pst f) CUpper) width 11%nat
             (rpad2 (d_day d) ++ [45%N] ++ firstn 3 (month_name (d_month d)) ++ [45%N] ++ padz 4 y))), rest, [])
  else if (c =? 82)%N then comp 5%nat (pad2 (dt_hour t) ++ [58%N] ++ pad2 (dt_min t))      (* R *)
  else if ((c =? 68) || (c =? 120))%N then comp 8%nat (pad2 (d_month d) ++ [47%N] ++ pad2 (d_day d) ++ [47%N] ++ pad2 (Z.rem y 100))   (* D x *)
  else if ((c =? 84) || (c =? 88))%N then comp 8%nat hms            (* T X *)
  else if (c =? 114)%N then                                           (* r *)
    comp 11%nat (pad2 (hour12 (dt_hour t)) ++ [58%N] ++ pad2 (dt_min t) ++ [58%N] ++ pad2 (dt_sec t) ++ [32%N]
                 ++ (if (dt_hour t <? 12)%Z then [65;77]%N else [80;77]%N))
  else if (c =? 99)%N then                                            (* c *)
    comp 24%nat (firstn 3 (weekday_name (wd_mon0 d)) ++ [32%N] ++ firstn 3 (month_name (d_month d)) ++ [32%N]
                 ++ rpad2 (d_day d) ++ [32%N] ++ hms ++ [32%N] ++ padz 4 y)
  else if (c =? 37)%N then (DOut (fmt_literal f width 37%N), rest, [])      (* %% *)
  else if (c =? 110)%N then (DOut (fmt_literal f width 10%N), rest, [])     (* n *)
  else if (c =? 116)%N then (DOut (fmt_literal f width 9%N), rest, [])      (* t *)
  else if (c =? 76)%N then (DOut (fmt_fraction (dt_nano t) (match width with Some w => w | None => 3%nat end)), rest, [])   (* L *)
  else if (c =? 78)%N then (DOut (fmt_fraction (dt_nano t) (match width with Some w => w | None => 9%nat end)), rest, [])   (* N *)
  else if (c =? 122)%N then (DOut (fmt_offset f width (dt_off t) false false), rest, [])    (* z *)
  else if (c =? 90)%N then (DOut (fmt_offset f width (dt_off t) true false), rest, [])      (* Z *)
  else if (c =? 58)%N then                                            (* :z  ::z *)
    match rest with
    | 122%N :: r => (DOut (fmt_offset f width (dt_off t) true false), r, [122%N])
    | 58%N :: 122%N :: r => (DOut (fmt_offset f width (dt_off t) true true), r, [58;122]%N)
    | 58%N :: x :: r => (DUnknown, r, [58%N; x])
    | 58%N :: [] => (DUnknown, [], [58%N])
    | x :: r => (DUnknown, r, [x])
    | [] => (DUnknown, [], [])
    end
  else (DUnknown, rest, []).

(* what follows a '%': flags, width, E/O modifier, directive.  Returns the text produced and the
   rest of the format, or None for a malformed format (an error of the filter). *)
Definition after_percent (t : datetime) (l : str) : option (str * str) :=
  match eat_flags l flags0 [] with
  | None => None
  | Some (f, seen, l1) =>
      let '(ds, l2) := span_digits l1 in
      let width := match ds with
                   | [] => Some None
                   | _ => match l2 with
                          | [] => None                                    (* the format ended inside the width *)
                          | _ => match parse_digits ds 0%Z with
                                 | Some w => if (w <=? usize_max)%Z then Some (Some (Z.to_nat w)) else None
                                 | None => None
                                 end
                          end
                   end in
      match width with
      | None => None
      | Some w =>
          match l2 with
          | [] => None
          | c0 :: l3 =>
              let m := if ((c0 =? 69) || (c0 =? 79))%N then
                         match l3 with [] => None | c1 :: l4 => Some (c1, l4, [c0; c1]) end
                       else Some (c0, l3, [c0]) in
              match m with
              | None => None
              | Some (c, rest, cs) =>
                  match directive t f w c rest with
                  | (DOut s, r, _) => Some (s, r)
                  | (DUnknown, r, extra) => Some (c_pct :: seen ++ ds ++ cs ++ extra, r)
                  | (DErr, _, _) => None
                  end
              end
          end
      end
  end.

Fixpoint strftime_fuel (fuel : nat) (t : datetime) (l : str) : res str :=
  match fuel with
  | O => OutOfFuel
  | S fu =>
      match l with
      | [] => Ok []
      | c :: r =>
          if (c =? 37)%N then
            match after_percent t r with
            | None => Err EInvalidArgument
            | Some (s, r') => do o <- strftime_fuel fu t r'; Ok (s ++ o)
            end
          else do o <- strftime_fuel fu t r; Ok (c :: o)
      end
  end.
Definition strftime (t : datetime) (fmt : str) : res str := strftime_fuel (S (length fmt)) t fmt.

(* ---- the default textual form, parsed back (datetime.rs DATE_TIME_FORMAT / _SUBSEC) ---- *)
Definition take_num (n : nat) (l : str) : option (Z * str) :=
  let ds := firstn n l in
  if Nat.eqb (length ds) n && forallb is_digit ds then
    match parse_digits ds 0%Z with Some z => Some (z, skipn n l) | None => None end
  else None.
Definition expect_c (c : char) (l : str) : option str :=
  match l with x :: t => if (x =? c)%N then Some t else None | [] => None end.
Definition scale9 (ds : str) : Z :=       (* 1..9 fraction digits -> nanoseconds *)
  match parse_digits ds 0%Z with Some z => (z * 10 ^ Z.of_nat (9 - length ds))%Z | None => 0%Z end.
Definition parse_default (l : str) : option datetime :=
  match take_num 4 l with None => None | Some (y, l) =>
  match expect_c 45%N l with None => None | Some l =>
  match take_num 2 l with None => None | Some (mo, l) =>
  match expect_c 45%N l with None => None | Some l =>
  match take_num 2 l with None => None | Some (d, l) =>
  match expect_c 32%N l with None => None | Some l =>
  match take_num 2 l with None => None | Some (h, l) =>
  match expect_c 58%N l with None => None | Some l =>
  match take_num 2 l with None => None | Some (mi, l) =>
  match expect_c 58%N l with None => None | Some l =>
  match take_num 2 l with None => None | Some (s, l) =>
  let '(ns, l) := match l with
                  | 46%N :: l' => let (ds, r) := span_digits l' in
                                  if Nat.leb 1 (length ds) then (Some (scale9 (firstn 9 ds)), r) else (None, r)      (* digits beyond the ninth are read and dropped *)
                  | _ => (Some 0%Z, l)
                  end in
  match ns with None => None | Some ns =>
  match expect_c 32%N l with None => None | Some l =>
  match l with
  | sg :: l =>
      if ((sg =? 43) || (sg =? 45))%N then
        match take_num 2 l with None => None | Some (oh, l) =>
        match take_num 2 l with None => None | Some (om, l) =>
        match l with
        | [] => let t := mkDT (mkDate y mo d) h mi s ns ((if (sg =? 45)%N then -1 else 1) * (oh * 3600 + om * 60))%Z in
                if valid_dt t && (om <? 60)%Z then Some t else None
        | _ => None
        end end end
      else None
  | [] => None
  end end end end end end end end end end end end end end.
