(* BlockParse.v — the block machinery of crates/core/src/parser/parser.rs (parse(), TagBlock::next,
   escape_liquid, parse_all, assert_empty, BlockElement::parse_pair) and the element loops of the
   stdlib blocks (if/unless/case/for/tablerow/capture/ifchanged/comment/raw), over the SHARED element
   iterator.  An element is reduced to what this machinery looks at: its kind, the tag keyword,
   whether the tag's own argument parser accepts its arguments, whether it has arguments at all.
   Every `expect`/`assert!`/`panic!` of the transcribed code is an explicit PPanic outcome. *)
From LV Require Export Base.

Inductive kw :=
| KIf | KUnless | KElse | KElsif | KEndif | KEndunless
| KFor | KEndfor | KTablerow | KEndtablerow
| KCase | KWhen | KEndcase
| KCapture | KEndcapture | KIfchanged | KEndifchanged
| KComment | KEndcomment | KRaw | KEndraw
| KPlain            (* a registered tag: assign, increment, decrement, cycle, break, continue, include, render *)
| KOther.           (* not registered *)
Definition kw_eqb (a b : kw) : bool :=
  match a, b with
  | KIf, KIf | KUnless, KUnless | KElse, KElse | KElsif, KElsif | KEndif, KEndif | KEndunless, KEndunless
  | KFor, KFor | KEndfor, KEndfor | KTablerow, KTablerow | KEndtablerow, KEndtablerow
  | KCase, KCase | KWhen, KWhen | KEndcase, KEndcase
  | KCapture, KCapture | KEndcapture, KEndcapture | KIfchanged, KIfchanged | KEndifchanged, KEndifchanged
  | KComment, KComment | KEndcomment, KEndcomment | KRaw, KRaw | KEndraw, KEndraw
  | KPlain, KPlain => true
  | _, _ => false            (* two unregistered names are never an end tag *)
  end.

Inductive elem :=
| ERaw | EExp (ok : bool) | EInv
| ETag (name : kw) (args_ok : bool) (noargs : bool)
| EEOI.
Inductive pres := POk | PErr | PPanic | PFuel.
Definition st := (bool * list elem)%type.        (* TagBlock { closed, iter } *)

(* TagBlock::next *)
Inductive nres := NSome (e : elem) | NNone | NErr.
Definition next (end_tag : kw) (s : st) : nres * st :=
  let '(closed, it) := s in
  if closed then (NNone, s) else
  match it with
  | [] => (NErr, s)                                          (* after the repair: "Unclosed block" *)
  | EEOI :: it' => (NErr, (closed, it'))                      (* Unclosed block: the EOI is consumed *)
  | ETag name aok noargs :: it' =>
      if kw_eqb name end_tag then (if noargs then (NNone, (true, it')) else (NErr, (closed, it')))
      else (NSome (ETag name aok noargs), (closed, it'))
  | e :: it' => (NSome e, (closed, it'))
  end.
(* TagBlock::escape_liquid(false), as used by raw *)
Fixpoint escape (end_tag : kw) (it : list elem) : pres * st :=
  match it with
  | [] => (PPanic, (false, []))                              (* panic!("Function must eventually find ...") *)
  | EEOI :: it' => (PErr, (false, it'))
  | ETag name _ noargs :: it' => if kw_eqb name end_tag && noargs then (POk, (true, it')) else escape end_tag it'
  | _ :: it' => escape end_tag it'
  end.
Definition assert_empty (s : st) : pres := if fst s then POk else PPanic.
Definition closing (r : pres * st) : pres * list elem :=
  match r with (POk, s) => (assert_empty s, snd s) | (x, s) => (x, snd s) end.

Fixpoint parse_elem (n : nat) (e : elem) (it : list elem) {struct n} : pres * list elem :=
  match n with O => (PFuel, it) | S n =>
  match e with
  | ERaw => (POk, it)
  | EExp ok => ((if ok then POk else PErr), it)
  | EInv => (PErr, it)                                        (* after the repair the iterator is left alone *)
  | EEOI => (PPanic, it)                                      (* From<Pair>: "Only rules Raw | Expression | Tag | InvalidLiquid" *)
  | ETag name aok noargs =>
      match name with
      | KPlain => ((if aok then POk else PErr), it)
      | KIf => closing (parse_if n aok (false, it))
      | KUnless => if aok then closing (else_loop n KEndunless false (false, it)) else (PErr, it)
      | KFor => if aok then closing (else_loop n KEndfor true (false, it)) else (PErr, it)
      | KTablerow => if aok then closing (parse_all n KEndtablerow (false, it)) else (PErr, it)
      | KCapture => if aok then closing (parse_all n KEndcapture (false, it)) else (PErr, it)
      | KIfchanged => if noargs then closing (parse_all n KEndifchanged (false, it)) else (PErr, it)
      | KCase => if aok then closing (case_loop n (false, it)) else (PErr, it)
      | KComment => if noargs then closing (comment_loop n (false, it)) else (PErr, it)
      | KRaw => if noargs then closing (escape KEndraw it) else (PErr, it)
      | _ => (PErr, it)                                       (* "Unknown tag." *)
      end
  end end
with parse_all (n : nat) (end_tag : kw) (s : st) {struct n} : pres * st :=
  match n with O => (PFuel, s) | S n =>
  match next end_tag s with
  | (NNone, s') => (POk, s')
  | (NErr, s') => (PErr, s')
  | (NSome e, (c, it')) =>
      match parse_elem n e it' with
      | (POk, it'') => parse_all n end_tag (c, it'')
      | (r, it'') => (r, (c, it''))
      end
  end end
with parse_if (n : nat) (cond_ok : bool) (s : st) {struct n} : pres * st :=
  match n with O => (PFuel, s) | S n =>
  if negb cond_ok then (PErr, s) else
  match next KEndif s with
  | (NNone, s') => (POk, s')
  | (NErr, s') => (PErr, s')
  | (NSome (ETag KElse _ _), s') => parse_all n KEndif s'
  | (NSome (ETag KElsif aok _), s') => parse_if n aok s'
  | (NSome e, (c, it')) =>
      match parse_elem n e it' with
      | (POk, it'') => parse_if n true (c, it'')
      | (r, it'') => (r, (c, it''))
      end
  end end
(* unless (strict = false: `else` may carry arguments) and for (strict = true: expect_nothing) *)
with else_loop (n : nat) (end_tag : kw) (strict : bool) (s : st) {struct n} : pres * st :=
  match n with O => (PFuel, s) | S n =>
  match next end_tag s with
  | (NNone, s') => (POk, s')
  | (NErr, s') => (PErr, s')
  | (NSome (ETag KElse _ noargs), s') => if strict && negb noargs then (PErr, s') else parse_all n end_tag s'
  | (NSome e, (c, it')) =>
      match parse_elem n e it' with
      | (POk, it'') => else_loop n end_tag strict (c, it'')
      | (r, it'') => (r, (c, it''))
      end
  end end
with case_loop (n : nat) (s : st) {struct n} : pres * st :=
  match n with O => (PFuel, s) | S n =>
  match next KEndcase s with
  | (NNone, s') => (POk, s')
  | (NErr, s') => (PErr, s')
  | (NSome (ETag KWhen aok _), s') => if aok then case_loop n s' else (PErr, s')
  | (NSome (ETag KElse _ noargs), s') => if noargs then parse_all n KEndcase s' else (PErr, s')
  | (NSome e, (c, it')) =>
      match parse_elem n e it' with
      | (POk, it'') => case_loop n (c, it'')
      | (r, it'') => (r, (c, it''))
      end
  end end
with comment_loop (n : nat) (s : st) {struct n} : pres * st :=
  match n with O => (PFuel, s) | S n =>
  match next KEndcomment s with
  | (NNone, s') => (POk, s')
  | (NErr, s') => (PErr, s')
  | (NSome (ETag KComment aok noargs), (c, it')) =>
      match parse_elem n (ETag KComment aok noargs) it' with
      | (POk, it'') => comment_loop n (c, it'')
      | (r, it'') => (r, (c, it''))
      end
  | (NSome (ETag name aok noargs), (c, it')) =>
      match parse_elem n (ETag name aok noargs) it' with
      | (PPanic, it'') => (PPanic, (c, it''))
      | (PFuel, it'') => (PFuel, (c, it''))
      | (_, it'') => comment_loop n (c, it'')                  (* let _ = tag.parse(..) *)
      end
  | (NSome _, s') => comment_loop n s'
  end end.

(* parser.rs parse(): elements until EOI *)
Fixpoint top (n : nat) (it : list elem) {struct n} : pres :=
  match n with O => PFuel | S n =>
  match it with
  | [] => POk
  | EEOI :: _ => POk
  | e :: it' => match parse_elem n e it' with (POk, it'') => top n it'' | (r, _) => r end
  end end.
Definition parse_elements (it : list elem) : pres := top (2 * length it + 2) it.
