"""pyref.py — a reference interpreter for templates (tools/props/tpl.py trees), written from the
property texts (C04 scoping, C05 loops with *structured* break/continue, C06 conditionals, C08
include/render), independently of the Coq model: scopes are an explicit chain, break/continue are
Python exceptions.  Used as specification oracle on the implementation's answers."""
from props import vmodel
from props.seqcommon import show_value


class RenderError(Exception):
    pass


class Break(Exception):
    pass


class Continue(Exception):
    pass


NIL = ["n"]


class Scope:
    """innermost first: local frames ≻ assigned (global layer) ≻ caller data ≻ counters; a sandbox cuts the chain"""

    def __init__(self, data, counters=None, partials=None):
        self.frames = []                 # list of dicts (loop variables, include arguments), innermost last
        self.assigned = {}
        self.data = dict(data)
        self.counters = counters if counters is not None else {}
        self.parent = None               # the caller of a `render` (hidden, but counters are shared)
        self.sandbox_args = None
        self.partials = partials or {}
        self.cycles = {}
        self.changed = None

    def lookup_root(self, name):
        for f in reversed(self.frames):
            if name in f:
                return f[name]
        if name in self.assigned:
            return self.assigned[name]
        if self.sandbox_args is not None:
            return self.sandbox_args.get(name)       # nothing outside the sandbox is visible
        if name in self.data:
            return self.data[name]
        if name in self.counters:
            return self.counters[name]
        return None


def step(v, idx):
    """one path step: object member, array index (negative from the end), first/last/size"""
    key = show_value(idx)
    if v[0] == "a":
        i = None
        if idx[0] == "i":
            i = int(idx[1])
        elif idx[0] == "s":
            body = idx[1][1:] if idx[1][:1] in "+-" else idx[1]
            if body.isascii() and body.isdigit() and -2 ** 63 <= int(idx[1]) < 2 ** 63:
                i = int(idx[1])
        if i is not None:
            n = len(v[1])
            if i < 0:
                i += n
            return v[1][i] if 0 <= i < n else None
        if key == "first":
            return v[1][0] if v[1] else None
        if key == "last":
            return v[1][-1] if v[1] else None
        if key == "size":
            return ["i", str(len(v[1]))]
        return None
    if v[0] == "o":
        d = dict(v[1])
        if key in d:
            return d[key]
        return ["i", str(len(v[1]))] if key == "size" else None
    if v[0] in vmodel.SCAL:
        return ["i", str(len(show_value(v)))] if key == "size" else None
    return None


def eval_expr(e, sc, optional=False):
    if e[0] == "lit":
        return e[1]
    v = sc.lookup_root(e[1])
    if v is None:
        if optional:
            return None
        raise RenderError("unknown variable " + e[1])
    for i in e[2]:
        iv = eval_expr(i, sc, optional)
        if iv is None:
            return None
        if iv[0] not in vmodel.SCAL:
            if optional:
                return None
            raise RenderError("index must be a scalar")
        v = step(v, iv)
        if v is None:
            if optional:
                return None
            raise RenderError("unknown index")
    return v


def eval_cond(c, sc):
    if c[0] == "ex":
        v = eval_expr(c[1], sc, optional=True)
        return vmodel.truthy(v if v is not None else NIL)
    if c[0] == "bin":
        a, b = eval_expr(c[1], sc), eval_expr(c[3], sc)
        try:
            return vmodel.compare(c[2], a, b)
        except vmodel.Error as e:
            raise RenderError(str(e))
    if c[0] == "and":
        return eval_cond(c[1], sc) and eval_cond(c[2], sc)
    return eval_cond(c[1], sc) or eval_cond(c[2], sc)


def to_int(v):
    if v[0] == "i":
        return int(v[1])
    if v[0] == "s":
        body = v[1][1:] if v[1][:1] in "+-" else v[1]
        if body.isascii() and body.isdigit() and -2 ** 63 <= int(v[1]) < 2 ** 63:
            return int(v[1])
    raise RenderError("whole number expected")


def items_of(rng, sc):
    if rng[0] == "cnt":
        a, b = to_int(eval_expr(rng[1], sc)), to_int(eval_expr(rng[2], sc))
        return [["i", str(i)] for i in range(a, b + 1)]
    v = eval_expr(rng[1], sc)
    if v[0] == "a":
        return list(v[1])
    if v[0] == "o":
        return [["a", [["s", k], x]] for k, x in v[1]]
    if v[0] in ("n", "st"):
        return []
    raise RenderError("array expected")


def window(items, limit, offset, rev, sc):
    def attr(e):
        if e is None:
            return None
        z = to_int(eval_expr(e, sc))
        return z if z >= 0 else 2 ** 64 + z
    lim, off = attr(limit), attr(offset) or 0
    rest = items[min(off, len(items)):]
    sel = rest if lim is None else rest[:lim]
    return sel[::-1] if rev else sel


def forloop(i, n, parent=None):
    return ["o", [["length", ["i", str(n)]], ["parentloop", parent if parent is not None else NIL], ["index0", ["i", str(i)]], ["index", ["i", str(i + 1)]],
                  ["rindex0", ["i", str(n - i - 1)]], ["rindex", ["i", str(n - i)]], ["first", ["b", i == 0]], ["last", ["b", i == n - 1]]]]


def apply_filter_chain(fc, sc, filters):
    v = eval_expr(fc[0], sc)
    for f, args in fc[1]:
        a = [eval_expr(x, sc) for x in args]
        if filters is None or f not in filters:
            raise NotImplementedError(f)
        v = filters[f](v, a)
    return v


class Interp:
    def __init__(self, partials=None, filters=None, max_depth=8):
        self.partials = partials or {}     # name -> body (tree) | None (broken source)
        self.filters = filters
        self.max_depth = max_depth

    def render(self, tpl, data):
        sc = Scope(data)
        out = []
        try:
            self.body(tpl, sc, out, 0)
        except (Break, Continue):
            pass                            # an interrupt outside any loop ends the template
        return "".join(out)

    def body(self, nodes, sc, out, depth):
        for n in nodes:
            self.node(n, sc, out, depth)

    def get_partial(self, name, fallback):
        if name in self.partials:
            b = self.partials[name]
        elif fallback and (name + ".liquid") in self.partials:
            b = self.partials[name + ".liquid"]
        else:
            raise RenderError("unknown partial " + name)
        if b is None:
            if fallback and (name + ".liquid") in self.partials and self.partials[name + ".liquid"] is not None:
                return self.partials[name + ".liquid"]
            raise RenderError("partial does not parse")
        return b

    def node(self, n, sc, out, depth):
        k = n[0]
        if k in ("text", "raw"):
            out.append(n[1])
        elif k == "comment":
            pass
        elif k == "out":
            out.append(show_value(apply_filter_chain(n[1], sc, self.filters)))
        elif k == "assign":
            sc.assigned[n[1]] = apply_filter_chain(n[2], sc, self.filters)
        elif k == "capture":
            buf = []
            try:
                self.body(n[2], sc, buf, depth)
            except (Break, Continue):
                sc.assigned[n[1]] = ["s", "".join(buf)]      # binds what the body printed before the interrupt
                raise
            sc.assigned[n[1]] = ["s", "".join(buf)]
        elif k in ("inc", "dec"):
            cur = sc.counters.get(n[1])
            v = int(cur[1]) if cur is not None and cur[0] == "i" else 0
            if k == "inc":
                out.append(str(v))
                sc.counters[n[1]] = ["i", str(v + 1)]
            else:
                out.append(str(v - 1))
                sc.counters[n[1]] = ["i", str(v - 1)]
        elif k == "cycle":
            from props.tpl import cycle_name
            name = cycle_name(n)
            i = sc.cycles.get(name, 0)
            sc.cycles[name] = (i + 1) % len(n[2])
            if i >= len(n[2]):
                raise RenderError("cycle index out of bounds")
            out.append(show_value(eval_expr(n[2][i], sc)))
        elif k == "if":
            if eval_cond(n[2], sc) == bool(n[1]):
                self.body(n[3], sc, out, depth)
            elif n[4] is not None:
                self.body(n[4], sc, out, depth)
        elif k == "case":
            tv = eval_expr(n[1], sc)
            for vals, b in n[2]:
                if any(vmodel.veq(eval_expr(v, sc), tv) for v in vals):
                    return self.body(b, sc, out, depth)
            if n[3] is not None:
                self.body(n[3], sc, out, depth)
        elif k == "for":
            _, x, rng, limit, offset, rev, body, els = n
            items = items_of(rng, sc)
            sel = window(items, limit, offset, rev, sc)
            if not sel:
                if els is not None:
                    self.body(els, sc, out, depth)
                return
            parent = sc.lookup_root("forloop")
            for i, v in enumerate(sel):
                sc.frames.append({"forloop": forloop(i, len(sel), parent), x: v})
                try:
                    self.body(body, sc, out, depth)
                except Continue:
                    pass
                except Break:
                    sc.frames.pop()
                    break
                sc.frames.pop()
        elif k == "tablerow":
            raise NotImplementedError("tablerow")
        elif k == "break":
            raise Break()
        elif k == "continue":
            raise Continue()
        elif k == "ifchanged":
            buf = []
            pending = None
            try:
                self.body(n[1], sc, buf, depth)
            except (Break, Continue) as e:
                pending = e
            t = "".join(buf)
            if sc.changed is None or sc.changed != t:
                out.append(t)
            sc.changed = t
            if pending is not None:
                raise pending
        elif k == "include":
            pv = eval_expr(n[1], sc)
            if pv[0] not in vmodel.SCAL:
                raise RenderError("include: string expected")
            args = {}
            for a, e in n[2]:
                v = eval_expr(e, sc, optional=True)
                if v is None:
                    raise RenderError("failed to evaluate value")
                args[a] = v
            b = self.get_partial(show_value(pv), False)
            if depth >= self.max_depth:
                raise RenderError("nesting too deep")
            sc.frames.append(args)
            try:
                self.body(b, sc, out, depth + 1)        # shares the caller's scope: a break reaches the caller's loop
            finally:
                sc.frames.pop()
        elif k == "render":
            _, p, form, args = n
            pv = eval_expr(p, sc)
            if pv[0] not in vmodel.SCAL:
                raise RenderError("render: string expected")
            name = show_value(pv)
            all_args = list(args)
            loop = None
            if form is not None and form[0] == "with":
                all_args = [(form[2], form[1])] + all_args
            elif form is not None:
                loop = form

            def argvals():
                d = {}
                for a, e in all_args:
                    v = eval_expr(e, sc, optional=True)
                    if v is None:
                        raise RenderError("failed to evaluate value")
                    d[a] = v
                return d

            def run(sandbox_args):
                b = self.get_partial(name, True)
                if depth >= self.max_depth:
                    raise RenderError("nesting too deep")
                inner = Scope({}, counters=sc.counters)      # isolated: only the arguments; counters are shared
                inner.sandbox_args = sandbox_args
                inner.data = {}
                try:
                    self.body(b, inner, out, depth + 1)
                except Continue:
                    return "continue"
                except Break:
                    return "break"                           # never reaches the caller
                return None
            if loop is not None:
                items = items_of(loop[0], sc)
                for i, v in enumerate(items):
                    d = argvals()
                    d["forloop"] = forloop(i, len(items))
                    d[loop[1]] = v
                    if run(d) == "break":
                        break
            else:
                run(argvals())
        else:
            raise NotImplementedError(k)


def run(tpl, data, partials=None, filters=None):
    """('ok', text) | ('err', text written before the failure)"""
    it = Interp(partials, filters)
    sc_out = []
    try:
        sc = Scope(data)
        try:
            it.body(tpl, sc, sc_out, 0)
        except (Break, Continue):
            pass
        return ("ok", "".join(sc_out))
    except RenderError:
        return ("err", "".join(sc_out))
