"""C20 — parsers and templates can be shared across threads without changing results."""
import json, random
from props import tpl, scen
import lv

PROP = "C20"
TARGETS = ["props/C20.vo", "corr/Rendercorr.vo"]
HEADER = "From LV Require Import Corr Eval Rendercorr.\n"
CHECKER = "render_check"
TRUSTED = [
    "model/Partials.v: threads sharing one lazy store; every cache access (the critical section of get_or_create / try_get_or_create: check - compile - insert under one lock, no lock held while rendering) is one atomic step of the model",
    "PARTIAL: mutual exclusion of std::sync::Mutex, Send/Sync soundness, data races in unsafe code of dependencies, lock poisoning after a panic and the OS scheduler are runtime behaviour the model cannot exhibit; they are exercised by the thread schedules below, not proved",
]
RULE = ("contention schedules (4..16 threads x 4 long renders full of break/continue/cycle/counters/ifchanged/capture/partial calls); schedules of 2..16 real threads released together by a barrier, each performing a random sequence of render / parse+render / parse calls on one shared Parser (lazy partial store) and shared Templates, "
        "with stateful constructs and lazily compiled valid and broken partials first touched by several threads at once; varied thread counts, start skews and yield injection; a watchdog detects deadlock; "
        "every call is compared with the sequential result; non-trivial = a schedule with >= 2 threads touching the same lazily compiled partial")


def main(tier, seed):
    rnd = random.Random(seed)
    run = lv.Run(PROP, tier, seed)
    run.trusted = lv.COMMON_TRUSTED + TRUSTED
    lv.standard_proof_phase(run, PROP, TARGETS, thorough=(tier == "thorough"))
    ok, binp, out, dt = lv.build_harness("debug")
    if not ok:
        run.obligation(False, "harness build against /repo", out[-3000:])
        return run.finish()
    scenarios = scen.fixed_scenarios() + [scen.random_scenario(rnd) for _ in range(8 if tier == "quick" else 60)]
    # a contention scenario: long renders full of break / continue / cycle / counters / ifchanged / capture / partial calls, so that several of them are
    # certainly in flight at once and anything shared between renders (not only the partial store) is hit at every element boundary
    var, I, Sx = tpl.var, tpl.I, tpl.Sx
    A = [("for", "i", ("cnt", I(1), I(150)), None, None, False, [("if", True, ("bin", var("i"), ">", I(2)), [("continue",)], None), ("text", "x"), ("out", (var("i"), []))], None), ("text", "|"),
         ("for", "i", ("cnt", I(1), I(150)), None, None, False, [("for", "j", ("cnt", I(1), I(3)), None, None, False, [("if", True, ("bin", var("j"), "==", I(2)), [("break",)], None), ("out", (var("j"), []))], None)], None)]
    B = [("for", "i", ("cnt", I(1), I(200)), None, None, False, [("cycle", None, [Sx("a"), Sx("b"), Sx("c")]), ("inc", "n"), ("ifchanged", [("text", "k")]), ("assign", "g", (var("i"), [])),
                                                                  ("capture", "cap", [("out", (var("i"), []))]), ("out", (var("cap"), []))], None)]
    Cc = [("for", "i", ("cnt", I(1), I(60)), None, None, False, [("render", Sx("p"), None, [("k", var("i"))]), ("include", Sx("p"), [("k", var("i"))])], None)]
    stress_si = len(scenarios)
    scenarios.append({"partials": [("p", [("text", "("), ("out", (var("k"), [])), ("inc", "n"), ("text", ")")])], "templates": [A, B, Cc], "datas": [[["a", ["i", "1"]]]]})
    # sequential reference: every (template, data) once on a fresh parser
    seq_reqs = []
    for si, sc in enumerate(scenarios):
        pairs = [[t, d] for t in range(len(sc["templates"])) for d in range(len(sc["datas"]))]
        seq_reqs.append({"id": si, "kind": "history", "policy": "lazy", "partials": scen.partials_req(sc),
                         "templates": [tpl.body_text(t) for t in sc["templates"]], "datas": sc["datas"], "calls": pairs})
    seq, problems = lv.run_harness(binp, seq_reqs, tag="C20s")
    expected = {}
    for q in seq_reqs:
        r = seq.get(q["id"])
        if r is None or "results" not in r:
            run.violations.append({"what": "sequential reference run failed", "observed": r})
            continue
        for call, res in zip(q["calls"], r["fresh"]):
            expected[(q["id"], call[0], call[1])] = res
    reqs = []
    nsched = 300 if tier == "quick" else 20000
    for _ in range(nsched):
        si = rnd.randrange(len(scenarios))
        sc = scenarios[si]
        nt = rnd.choice([2, 2, 3, 4, 8, 16])
        threads = []
        for _t in range(nt):
            prog = []
            for _c in range(rnd.randint(1, 5)):
                kind = rnd.choice(["render", "render", "parse_render", "parse"])
                prog.append([kind, rnd.randrange(len(sc["templates"])), rnd.randrange(len(sc["datas"]))])
            threads.append(prog)
        reqs.append({"id": len(reqs), "kind": "threads", "si": si, "policy": rnd.choice(["lazy", "lazy", "eager", "ondemand"]), "partials": scen.partials_req(sc),
                     "templates": [tpl.body_text(t) for t in sc["templates"]], "datas": sc["datas"], "threads": threads,
                     "yields": rnd.random() < 0.5, "skew_us": rnd.choice([0, 0, 1, 20]), "watchdog_s": 30})
    sc = scenarios[stress_si]
    for _ in range(24 if tier == "quick" else 400):
        threads = [[["render", rnd.randrange(3), 0] for _c in range(4)] for _t in range(rnd.choice([4, 8, 16]))]
        reqs.append({"id": len(reqs), "kind": "threads", "si": stress_si, "policy": rnd.choice(["lazy", "eager", "ondemand"]), "partials": scen.partials_req(sc),
                     "templates": [tpl.body_text(t) for t in sc["templates"]], "datas": sc["datas"], "threads": threads, "yields": rnd.random() < 0.5, "skew_us": 0, "watchdog_s": 60})
    resps, problems = lv.run_harness(binp, reqs, shards=4, tag="C20", timeout=1200)
    for pb in problems:
        run.violations.append({"what": "implementation process died / hung during a thread schedule", "observed": pb["tail"]})
    calls, nontriv, samples = 0, 0, []
    for q in reqs:
        r = resps.get(q["id"])
        if r is None:
            continue
        inp = {"threads": q["threads"], "templates": q["templates"], "partials": q["partials"], "policy": q["policy"]}
        if r.get("deadlock"):
            run.violations.append({"what": "a thread schedule did not finish (deadlock or poisoned lock)", "input": inp, "observed": r})
            continue
        if "threads" not in r:
            run.violations.append({"what": "thread run failed", "input": inp, "observed": r})
            continue
        touched = {}
        for ti, (prog, outs) in enumerate(zip(q["threads"], r["threads"])):
            for call, got in zip(prog, outs):
                calls += 1
                kind, t, d = call
                if "panic" in got:
                    run.violations.append({"what": "a concurrent call panicked", "input": inp, "observed": got})
                    continue
                exp = expected.get((q["si"], t, d))
                if kind == "parse":
                    if ("parse_err" in got) != (exp is not None and "parse_err" in exp):
                        run.violations.append({"what": "a concurrent parse differs from the sequential parse", "input": inp, "observed": got, "expected": exp})
                    continue
                touched.setdefault(t, set()).add(ti)
                if exp is not None and got != exp:
                    run.violations.append({"what": "a concurrent render returned something else than it returns when executed alone",
                                           "input": dict(inp, call=[ti] + call), "observed": got, "expected": exp})
        if any(len(v) >= 2 for v in touched.values()):
            nontriv += 1
        k = 0
        for t in range(len(q["templates"])):
            for d in range(len(q["datas"])):
                exp = expected.get((q["si"], t, d))
                if exp is not None and r["after"][k] != exp:
                    run.violations.append({"what": "later sequential use of the shared parser is affected by the concurrent phase", "input": inp, "observed": r["after"][k], "expected": exp})
                k += 1
        if len(samples) < 2:
            samples.append({"threads": q["threads"], "policy": q["policy"], "first_thread_results": r["threads"][0][:2]})
    # the model's schedule-independent prediction
    irs, keys = [], []
    for (si, ti, di), got in expected.items():
        sc = scenarios[si]
        irs.append(tpl.case_ir({"tpl": sc["templates"][ti], "data": sc["datas"][di], "partials": sc["partials"]}, got))
        keys.append((si, ti, di))
    okd, drv, dout, ddt = lv.build_driver()
    run.obligation(okd, "extraction of the model and driver build", dout[-3000:])
    failing = []
    if okd:
        failing, errors = lv.run_driver(drv, CHECKER, [lv.to_sexp(t) for t in irs], tag="C20")
        run.obligation(not errors, "correspondence suite C20 evaluated by the extracted model", json.dumps(errors)[:3000])
        idx = sorted(set(failing[:20]) | set(random.Random(seed).sample(range(len(irs)), min(len(irs), 60))))
        cfail, cproblems = lv.run_coq_cases("C20", HEADER, [lv.to_coq(irs[i]) for i in idx], check_fn=CHECKER, shard_size=30)
        run.obligation(not cproblems and sorted(idx[j] for j in cfail) == sorted(i for i in failing if i in set(idx)),
                       "extracted driver agrees with vm_compute inside Coq on %d sampled cases" % len(idx), json.dumps(cproblems)[:2000])
    run.obligation(okd and not failing, "correspondence C20: the model's schedule-independent result == the sequential result of every call", "%d disagreements" % len(failing))
    run.coverage.update({"evaluations": calls, "distinct_nontrivial": nontriv, "rule": RULE, "samples": samples, "traces_validated_against_impl": len(reqs),
                         "disagreements_checked": len(failing), "exhaustive": False,
                         "input_distribution": {"scenarios": len(scenarios), "schedules": len(reqs), "concurrent_calls": calls}})
    return run.finish()
