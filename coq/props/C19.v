(* C19 — Eager, lazy and on-demand partial compilation are observationally equivalent.
   Statements only; proofs in proofs/StoreProofs.v.  `compile` is parser::parse applied to a partial's
   source text; the theorems hold for every compile function. *)
From LV Require Import Base Partials StoreProofs.

Section C19.
Variable src tmpl : Type.
Variable compile : src -> res tmpl.
(* for every sequence of get / try_get / contains calls, the lazy store answers exactly like the
   on-demand store (which compiles at every use), from any reachable cache state *)
Theorem lazy_equiv_ondemand : forall s qs c, cache_inv src tmpl compile s c ->
  fst (lazy_run src tmpl compile s c qs) = map (ondemand_answer src tmpl compile s) qs /\
  cache_inv src tmpl compile s (snd (lazy_run src tmpl compile s c qs)).
Proof. exact (StoreProofs.lazy_equiv_ondemand src tmpl compile). Qed.
(* the eager store (everything compiled when the parser is built) answers every call alike *)
Theorem eager_equiv_ondemand : forall s q,
  eager_answer src tmpl s (eager_build src tmpl compile s) q = ondemand_answer src tmpl compile s q.
Proof. exact (StoreProofs.eager_equiv_ondemand src tmpl compile). Qed.
(* building the parser never fails, whatever the partial sources contain: failures are stored and
   reported by the get that asks for that partial *)
Theorem build_never_fails : forall s, exists st, eager_build src tmpl compile s = st /\ length st = length s.
Proof. exact (StoreProofs.build_never_fails src tmpl compile). Qed.
(* a missing or broken partial matters only to a get that names it *)
Theorem unused_partial_harmless : forall s n b bad, n <> b ->
  ondemand_get src tmpl compile ((b, bad) :: s) n = ondemand_get src tmpl compile s n.
Proof.
  intros s n b bad H. unfold ondemand_get. simpl. destruct (BaseLemmas.str_eqb_spec n b); [contradiction|reflexivity].
Qed.
Theorem repeat_same : forall s c n, cache_inv src tmpl compile s c ->
  let (r1, c1) := lazy_get src tmpl compile s c n in fst (lazy_get src tmpl compile s c1 n) = r1.
Proof. exact (StoreProofs.repeat_same src tmpl compile). Qed.
End C19.

Print Assumptions lazy_equiv_ondemand.
Print Assumptions eager_equiv_ondemand.
Print Assumptions build_never_fails.
Print Assumptions unused_partial_harmless.
Print Assumptions repeat_same.
