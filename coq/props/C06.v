(* C06 — Conditionals render exactly one branch, chosen by Liquid truth and comparison.
   Statements only; proofs in proofs/EvalProofs.v.  The grouping of `and`/`or` is produced by
   the parser: the correspondence check compares it on the implementation's own parser; the
   theorems below give the meaning of the condition tree. *)
From LV Require Import Base Value Stack Eval EvalProofs CondParse CondProofs.

(* a bare value is true unless it is nil or false *)
Theorem truthiness : forall v, (forall st, v <> VState st) ->
  (truthy v = false <-> v = VNil \/ v = VScalar (SBool false)).
Proof. exact EvalProofs.truthiness. Qed.
Theorem zero_empty_are_true :
  truthy (VScalar (SInt 0)) = true /\ truthy (VScalar (SStr [])) = true /\ truthy (VArray []) = true /\ truthy (VObject []) = true.
Proof. exact EvalProofs.zero_empty_are_true. Qed.

Section C06.
Variable O : oracle. Variable ps : pstore. Variable rec : template -> est -> sink -> out.
(* an undefined name counts as nil in a bare test (and only there) *)
Theorem bare_test : forall e s, eval_cond O (CExists e) s =
  Ok (truthy (match try_eval_expr O e s with Some v => v | None => VNil end)).
Proof. exact (EvalProofs.bare_test O). Qed.
Theorem undefined_is_false : forall e s, try_eval_expr O e s = None -> eval_cond O (CExists e) s = Ok false.
Proof. exact (EvalProofs.undefined_is_false O). Qed.
(* the comparison operators are the value model's equality and ordering (C11) *)
Theorem ops_are_value_model : forall a b,
  eval_cmp O OpEq a b = Ok (value_eq a b) /\ eval_cmp O OpNe a b = Ok (negb (value_eq a b)) /\
  eval_cmp O OpLt a b = Ok (v_lt a b) /\ eval_cmp O OpGt a b = Ok (v_gt a b) /\
  eval_cmp O OpLe a b = Ok (v_le a b) /\ eval_cmp O OpGe a b = Ok (v_ge a b).
Proof. exact (EvalProofs.ops_are_value_model O). Qed.
Theorem contains_spec : forall a b,
  eval_cmp O OpContains a b =
  match a with
  | VScalar _ => Ok (str_contains (to_kstr O a) (to_kstr O b))
  | VObject kvs => Ok (match b with VScalar _ => has_key (to_kstr O b) kvs | _ => false end)
  | VArray l => Ok (existsb (fun e => value_eq e b) l)
  | _ => Err EOther
  end.
Proof. exact (EvalProofs.contains_spec O). Qed.
Theorem and_or_semantics : forall a b c s x y z,
  eval_cond O a s = Ok x -> eval_cond O b s = Ok y -> eval_cond O c s = Ok z ->
  eval_cond O (COr a (CAnd b c)) s = Ok (x || (y && z)) /\
  eval_cond O (CAnd a b) s = Ok (x && y) /\ eval_cond O (COr a b) s = Ok (x || y).
Proof. exact (EvalProofs.and_or_semantics O). Qed.

(* if / elsif / else: exactly one branch — the first whose condition holds, otherwise else,
   otherwise nothing *)
Theorem if_first_true : forall arms els s k,
  Forall (fun cb => exists v, eval_cond O (fst cb) s = Ok v) arms ->
  ropt_list O ps rec (mk_if arms els) s k =
  match List.find (fun cb => match eval_cond O (fst cb) s with Ok true => true | _ => false end) arms with
  | Some (_, b) => rlist O ps rec b s k
  | None => ropt_list O ps rec els s k
  end.
Proof. exact (EvalProofs.if_first_true O ps rec). Qed.
Theorem if_error_propagates : forall c t e s k cl, eval_cond O c s = Err cl ->
  rnode O ps rec (NIf true c t e) s k = (OFail cl, s, k).
Proof. exact (EvalProofs.if_error_propagates O ps rec). Qed.
Theorem unless_is_negation : forall c t e s k v, eval_cond O c s = Ok v ->
  rnode O ps rec (NIf false c t (Some e)) s k = rnode O ps rec (NIf true c e (Some t)) s k.
Proof. exact (EvalProofs.unless_is_negation O ps rec). Qed.
(* case / when: the first arm one of whose values equals the target *)
Theorem case_first_equal : forall whens target els s k tv, eval_expr O target s = Ok tv ->
  Forall (fun arm => Forall (fun a => exists v, eval_expr O a s = Ok v) (fst arm)) whens ->
  rnode O ps rec (NCase target whens els) s k =
  match List.find (arm_matches O tv s) whens with
  | Some (_, b) => rlist O ps rec b s k
  | None => ropt_list O ps rec els s k
  end.
Proof. exact (EvalProofs.case_first_equal O ps rec). Qed.
End C06.

(* non-vacuity: a three-arm chain whose second condition holds *)
Example c06_nonvacuous :
  let c b := CExists (ELit (VScalar (SBool b))) in
  let s := est_build [] in
  ropt_list no_oracle_v (fun _ => Err EOther) (fun _ s k => (ODone, s, k))
    (mk_if [(c false, [NText [49%N]]); (c true, [NText [50%N]]); (c true, [NText [51%N]])] (Some [NText [52%N]])) s sink0
  = (ODone, s, mkSink [50%N] None).
Proof. vm_compute. reflexivity. Qed.

(* ---- how the condition of an if / unless / elsif is read (parse_condition): atoms joined by `and` into
   groups, groups joined by `or`, both to the left — `x or y and z` is `x or (y and z)` — for every number of
   groups and atoms; the connective tokens are whatever reads as `and` / `or` / an operator ---- *)
Theorem condition_is_or_of_ands : forall and_t or_t op_t,
  t_cls and_t = TAnd -> t_cls or_t = TOr -> (forall o, t_cls (op_t o) = TOp o) ->
  forall g more, parse_condition (toks_of_cond and_t or_t op_t g more) = Ok (cond_of_cond g more).
Proof. exact CondProofs.parse_condition_groups. Qed.
Theorem or_binds_looser_than_and : forall and_t or_t, t_cls and_t = TAnd -> t_cls or_t = TOr -> forall x y z,
  parse_condition [pv x; or_t; pv y; and_t; pv z] = Ok (COr (CExists x) (CAnd (CExists y) (CExists z))) /\
  parse_condition [pv x; and_t; pv y; or_t; pv z] = Ok (COr (CAnd (CExists x) (CExists y)) (CExists z)).
Proof.
  intros a o Ha Ho x y z. split;
    [exact (CondProofs.or_and_grouping a o (fun c => mkT None (TOp c)) Ha Ho (fun _ => eq_refl) x y z)
    |exact (CondProofs.and_or_grouping a o (fun c => mkT None (TOp c)) Ha Ho (fun _ => eq_refl) x y z)].
Qed.
(* its meaning: some group all of whose atoms hold *)
Theorem condition_truth_table : forall O s truth, (forall a, eval_cond O (cond_of_atom a) s = Ok (truth a)) ->
  forall g more, eval_cond O (cond_of_cond g more) s = Ok (existsb (fun h => truth (fst h) && forallb truth (snd h)) (g :: more)).
Proof. exact CondProofs.condition_meaning. Qed.
(* every token sequence is read or rejected: the parser neither runs out of the fuel it gives itself nor reaches
   the `unreachable!()` of its peeking iterator *)
Theorem condition_parser_total : forall l, parse_condition l <> OutOfFuel /\ (forall n, parse_condition l <> Panic n).
Proof. exact CondProofs.parse_condition_total. Qed.

Print Assumptions truthiness.
Print Assumptions zero_empty_are_true.
Print Assumptions bare_test.
Print Assumptions undefined_is_false.
Print Assumptions ops_are_value_model.
Print Assumptions contains_spec.
Print Assumptions and_or_semantics.
Print Assumptions if_first_true.
Print Assumptions if_error_propagates.
Print Assumptions unless_is_negation.
Print Assumptions case_first_equal.
Print Assumptions condition_is_or_of_ands.
Print Assumptions or_binds_looser_than_and.
Print Assumptions condition_truth_table.
Print Assumptions condition_parser_total.
