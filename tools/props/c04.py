"""C04 — scoping: innermost binding wins, assignments persist, caller data untouched."""
import itertools, random
from props import tpl, pyref, progen
from props.tpl import lit, var, I, Sx, request, observed, prepare_floats
from props.progen import read, reads_all, NAMES, DATA

PROP = "C04"
TARGETS = ["props/C04.vo", "corr/Rendercorr.vo"]
HEADER = "From LV Require Import Corr Eval Rendercorr.\n"
CHECKER = "render_check"
MODEL_HANDLES_PANIC = True
TRUSTED = [
    "model/Eval.v + model/Stack.v transcribe runtime/{runtime,stack,variable,expression}.rs, assign_tag.rs, capture_block.rs, increment_tags.rs, for_block.rs, include_tag.rs, src/template.rs",
    "the specification oracle tools/props/pyref.py is an independent interpreter written from the property text (explicit scope chain: loop variables / include arguments > assign / capture > caller data > counters)",
]
RULE = ("exhaustive: every sequence of up to 2 statements (3 in thorough) over {assign, capture, increment, decrement, for, if, include, read} x 2 names with one level of nested bodies, "
        "each followed by a read of every name; random programs of size <= 6, nesting <= 4 over 3 names; the caller datum is dumped before and after; non-trivial = the output differs from the output of the reads alone")

PARTIALS = [("p", [("text", "<")] + read("a") + [("assign", "a", (Sx("pA"), [])), ("inc", "c"), ("text", ">")]),
            ("q", [("text", "{")] + read("b") + read("c") + [("capture", "b", [("text", "qB")]), ("text", "}")])]


def prepare(cases, run):
    prepare_floats(cases, run)


def base_stmts(names, k):
    out = []
    for x in names:
        out += [[("assign", x, (Sx("s%d" % k), []))], [("inc", x)], [("dec", x)], read(x), [("assign", x, (var(names[0]), []))]]
    out += [[("include", Sx("p"), [])], [("include", Sx("p"), [("a", Sx("arg"))])], [("include", Sx("q"), [("b", var("a")), ("c", I(7))])]]
    return out


def nested_stmts(names, k):
    out = []
    for inner in base_stmts(names, k + 10):
        for x in names:
            out.append([("for", x, ("arr", var("arr")), None, None, False, inner + read(x), None)])
            out.append([("capture", x, inner + [("text", "k")])])
        out.append([("if", True, ("ex", var(names[0])), inner, None)])
    return out


def gen(tier, seed):
    rnd = random.Random(seed)
    cases = []
    names = ["a", "b"]

    def add(t, why, data=DATA, partials=PARTIALS):
        cases.append({"tpl": t, "data": data, "partials": partials, "why": why})
    L = 2 if tier == "quick" else 3
    stmts1 = base_stmts(names, 1) + nested_stmts(names, 1)
    for s1 in stmts1:
        add(s1 + reads_all(), "exhaustive-1")
    for s1 in stmts1:
        for s2 in (base_stmts(names, 2) + nested_stmts(names, 2)):
            if tier == "quick" and rnd.random() > 0.5:
                continue
            add(s1 + s2 + reads_all(), "exhaustive-2")
    if L >= 3:
        b3 = base_stmts(names, 3)
        for s1 in base_stmts(names, 1):
            for s2 in stmts1:
                for s3 in b3:
                    add(s1 + s2 + s3 + reads_all(), "exhaustive-3")
    # shadowing chains: the same name as datum, assigned variable, loop variable, counter and include argument
    for order in itertools.permutations(["assign", "for", "inc", "include", "capture"], 3):
        t = []
        for kind in order:
            t += {"assign": [("assign", "a", (Sx("ASG"), []))], "for": [("for", "a", ("arr", var("arr")), None, None, False, read("a") + [("assign", "a", (Sx("IN"), []))] + read("a"), None)],
                  "inc": [("inc", "a"), ("inc", "a")], "include": [("include", Sx("p"), [("a", Sx("ARG"))])],
                  "capture": [("capture", "a", [("text", "CAP")] + read("a"))]}[kind] + read("a")
        add(t + reads_all(), "shadow-chain")
        add(t + reads_all(), "shadow-chain-nodata", data=[["arr", DATA[2][1]]])
    nrand = 1500 if tier == "quick" else 30000
    for _ in range(nrand):
        g = progen.Gen(rnd, partial_names=["p", "q"])
        add(g.program(size=6, depth=4), "random")
    for i, c in enumerate(cases):
        c["id"] = i
    dist = {"exhaustive": True}
    for c in cases:
        dist[c["why"]] = dist.get(c["why"], 0) + 1
    return cases, dist


def case_ir(c, resp):
    return tpl.case_ir(c, resp)


def spec_check(c, resp):
    cls, acc = observed(resp)
    inp = {"template": tpl.body_text(c["tpl"]), "data": c["data"], "partials": [[n, tpl.body_text(b)] for n, b in c["partials"]]}
    if cls == 2:
        return {"what": "render panicked", "input": inp, "observed": resp.get("panic")}
    try:
        want = pyref.run(c["tpl"], dict((k, v) for k, v in c["data"]), dict(c["partials"]))
    except NotImplementedError:
        return None
    if want[0] == "err":
        return None if cls == 1 else {"what": "a failing lookup did not fail the render", "input": inp, "observed": acc}
    if cls != 0 or acc != want[1]:
        return {"what": "output differs from the scoping rules (innermost binding wins; assign/capture persist; loop variables and include arguments end with their construct)",
                "input": inp, "observed": acc if cls == 0 else resp, "expected": want[1]}
    return None


def nontrivial(c, resp):
    return observed(resp)[1] not in (None, "|[dA][12][-]", "")
