(* Correspondence checkers for C17: the strftime interpreter, the default printed form and its parser. *)
From LV Require Import Corr Strftime.
Definition str_same (a b : str) : bool := list_same N.eqb a b.
Record dcase := mkD { dc_dt : datetime; dc_fmt : str; dc_expected : outcome str }.
Definition date_check (c : dcase) : bool :=
  outcome_same str_same (outcome_of (strftime (dc_dt c) (dc_fmt c))) (dc_expected c).
(* Display of a date-time, and DateTime::from_str on a text in the default syntax *)
Record shcase := mkSh { sh_dt : datetime; sh_text : str }.
Definition dshow_check (c : shcase) : bool := str_same (show_datetime (sh_dt c)) (sh_text c).
Record pdcase := mkPD { pd_text : str; pd_expected : option datetime }.
Definition dparse_check (c : pdcase) : bool := opt_same dt_same (parse_default (pd_text c)) (pd_expected c).
