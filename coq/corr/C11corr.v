(* Correspondence checker for C11: Value == / partial_cmp answers of the implementation. *)
From LV Require Import Corr.

Inductive cmpres := CNone | CLt | CEq | CGt.
Definition cmpres_of (c : option comparison) : cmpres :=
  match c with None => CNone | Some Lt => CLt | Some Eq => CEq | Some Gt => CGt end.
Definition cmpres_same (a b : cmpres) : bool :=
  match a, b with CNone, CNone | CLt, CLt | CEq, CEq | CGt, CGt => true | _, _ => false end.

Record c11case := mkC11 {
  c11_a : value; c11_b : value;
  c11_eq : bool; c11_ne : bool; c11_cmp : cmpres;
  c11_lt : bool; c11_le : bool; c11_gt : bool; c11_ge : bool;
}.
Definition c11_check (c : c11case) : bool :=
  let a := c11_a c in let b := c11_b c in
  Bool.eqb (value_eq a b) (c11_eq c) && Bool.eqb (value_ne a b) (c11_ne c) &&
  cmpres_same (cmpres_of (value_cmp a b)) (c11_cmp c) &&
  Bool.eqb (v_lt a b) (c11_lt c) && Bool.eqb (v_le a b) (c11_le c) &&
  Bool.eqb (v_gt a b) (c11_gt c) && Bool.eqb (v_ge a b) (c11_ge c).
