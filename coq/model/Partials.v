(* Partials.v — crates/core/src/partials/{eager,lazy,ondemand,inmemory}.rs: the three ways a parser
   keeps its partial templates, over an in-memory source whose name listing is truthful.
   `compile` (= parser::parse of the source text) is a parameter: everything here is about WHEN it
   is called and what is remembered. *)
From LV Require Export Base.

Section Stores.
Variable src : Type.          (* source text of a partial *)
Variable tmpl : Type.         (* a compiled partial *)
Variable compile : src -> res tmpl.
Definition source := list (str * src).            (* InMemorySource *)

(* OnDemandCompiler: stateless, compiles at every use *)
Definition ondemand_get (s : source) (name : str) : res tmpl :=
  match lookup name s with Some t => compile t | None => Err EPartialMissing end.
Definition ondemand_try_get (s : source) (name : str) : option tmpl :=
  match lookup name s with Some t => match compile t with Ok x => Some x | _ => None end | None => None end.

(* EagerCompiler: everything compiled when the parser is built; failures are stored, not raised *)
Definition eager_store := list (str * res tmpl).
Definition eager_build (s : source) : eager_store := map (fun nt => (fst nt, compile (snd nt))) s.
Definition eager_get (st : eager_store) (name : str) : res tmpl :=
  match lookup name st with Some r => r | None => Err EPartialMissing end.
Definition eager_try_get (st : eager_store) (name : str) : option tmpl :=
  match lookup name st with Some (Ok x) => Some x | _ => None end.

(* LazyCompiler: a cache behind one mutex; the critical section is check - compile - insert *)
Definition cache := list (str * res tmpl).
Definition lazy_get (s : source) (c : cache) (name : str) : res tmpl * cache :=
  match lookup name c with
  | Some r => (r, c)
  | None => match lookup name s with
            | Some t => let r := compile t in (r, upsert name r c)
            | None => (Err EPartialMissing, c)          (* source.get(name)? — nothing is cached *)
            end
  end.
Definition lazy_try_get (s : source) (c : cache) (name : str) : option tmpl * cache :=
  match lookup name c with
  | Some r => (match r with Ok x => Some x | _ => None end, c)
  | None => match lookup name s with
            | Some t => let r := compile t in (match r with Ok x => Some x | _ => None end, upsert name r c)
            | None => (None, c)
            end
  end.

(* operation sequences against a store (C19) *)
Inductive call := CGet (n : str) | CTryGet (n : str) | CContains (n : str).
Inductive answer := AGet (r : res tmpl) | ATry (r : option tmpl) | ABool (b : bool).
Definition contains (s : source) (n : str) : bool := has_key n s.
Definition lazy_step (s : source) (c : cache) (q : call) : answer * cache :=
  match q with
  | CGet n => let (r, c') := lazy_get s c n in (AGet r, c')
  | CTryGet n => let (r, c') := lazy_try_get s c n in (ATry r, c')
  | CContains n => (ABool (contains s n), c)
  end.
Fixpoint lazy_run (s : source) (c : cache) (qs : list call) : list answer * cache :=
  match qs with
  | [] => ([], c)
  | q :: t => let (a, c') := lazy_step s c q in let (r, c'') := lazy_run s c' t in (a :: r, c'')
  end.
Definition ondemand_answer (s : source) (q : call) : answer :=
  match q with
  | CGet n => AGet (ondemand_get s n) | CTryGet n => ATry (ondemand_try_get s n) | CContains n => ABool (contains s n)
  end.
Definition eager_answer (s : source) (st : eager_store) (q : call) : answer :=
  match q with
  | CGet n => AGet (eager_get st n) | CTryGet n => ATry (eager_try_get st n) | CContains n => ABool (has_key n st)
  end.

(* threads sharing one lazy store (C20): every cache access is one atomic step; a schedule says
   which thread performs its next call *)
Definition threads := list (list call).
Fixpoint take_next (ts : threads) (i : nat) : option (call * threads) :=
  match ts, i with
  | [], _ => None
  | (q :: rest) :: t, O => Some (q, rest :: t)
  | [] :: _, O => None
  | p :: t, S j => match take_next t j with Some (q, t') => Some (q, p :: t') | None => None end
  end.
(* runs the schedule; each step is labelled with the thread that made the call *)
Fixpoint sched_run (s : source) (c : cache) (ts : threads) (sched : list nat) : list (nat * call * answer) :=
  match sched with
  | [] => []
  | i :: rest => match take_next ts i with
                 | Some (q, ts') => let (a, c') := lazy_step s c q in (i, q, a) :: sched_run s c' ts' rest
                 | None => sched_run s c ts rest
                 end
  end.
End Stores.
