"""lv.py — orchestrator library: build, shard, diff, search, evidence, verdict.

One property check =
  (T) theorem obligations: make of the property's .vo targets, re-run coqc on props/Cnn.v,
      Print Assumptions allow-list, grep for forbidden constructs;
  (G) regenerated artefacts from /repo (translator), where the property uses them;
  (C) correspondence: cases generated here, executed on the implementation by the Rust
      harness (built from /repo's working tree), evaluated on the model inside Coq
      (vm_compute over cases.v shards);
  (S) the property's executable specification evaluated on the implementation's answers
      (the failing-input search).
"""
import json, os, re, subprocess, sys, time, hashlib, shutil, random
from concurrent.futures import ThreadPoolExecutor

VERIF = os.path.dirname(os.path.dirname(os.path.abspath(__file__)))
COQ = os.path.join(VERIF, "coq")
CACHE = os.path.join(VERIF, ".cache")
HARNESS = os.path.join(VERIF, "harness")
EVID = os.path.join(VERIF, "evidence")
REPLAYS = os.path.join(EVID, "replays")
NCPU = 16

ENV = dict(os.environ, CARGO_NET_OFFLINE="true", CARGO_TERM_COLOR="never")

ALLOWED_AXIOMS = set()   # nothing: every theorem must be closed under the global context

FORBIDDEN = re.compile(r"\b(Admitted|admit|Axiom|Parameter|Conjecture|Unset\s+Guard|bypass_check|Admit\s+Obligations|type-in-type|impredicative-set)\b")


def sh(cmd, cwd=None, timeout=None, env=None, inp=None):
    t0 = time.time()
    try:
        p = subprocess.run(cmd, cwd=cwd, shell=isinstance(cmd, str), stdout=subprocess.PIPE,
                           stderr=subprocess.STDOUT, timeout=timeout, env=env or ENV, input=inp)
        return p.returncode, p.stdout.decode("utf-8", "replace"), time.time() - t0
    except subprocess.TimeoutExpired as e:
        out = (e.stdout or b"").decode("utf-8", "replace")
        return 124, out + "\n[timeout]", time.time() - t0


# ---------------------------------------------------------------- case terms (one IR, two printers)
# IR: ("c", Ctor, [args]) constructor application; ("r", mkName, [args]) record; ("z"|"n"|"p"|"nat", int);
#     ("s", text) string as code points; ("some", x) / None; ("pair", a, b, ...); python list; python bool.
def C(name, *args):
    return ("c", name, list(args))


def R(name, *args):
    return ("r", name, list(args))


def Zv(n):
    return ("z", int(n))


def Nv(n):
    return ("n", int(n))


def Pv(n):
    return ("p", int(n))


def Natv(n):
    return ("nat", int(n))


def S(text):
    return ("s", text)


def Some(x):
    return ("some", x)


def Opt(f, x):
    return None if x is None else ("some", f(x))


def P(*xs):
    return ("pair",) + tuple(xs)


def to_coq(t):
    if t is None:
        return "None"
    if t is True:
        return "true"
    if t is False:
        return "false"
    if isinstance(t, list):
        return "[" + ";".join(to_coq(x) for x in t) + "]"
    k = t[0]
    if k in ("c", "r"):
        return t[1] if not t[2] else "(" + t[1] + " " + " ".join(to_coq(x) for x in t[2]) + ")"
    if k == "z":
        return "(%d)%%Z" % t[1]
    if k == "n":
        return "%d%%N" % t[1]
    if k == "p":
        return "%d%%positive" % t[1]
    if k == "nat":
        return "%d%%nat" % t[1]
    if k == "s":
        return "[]" if not t[1] else "[" + ";".join(str(ord(c)) for c in t[1]) + "]%N"
    if k == "some":
        return "(Some %s)" % to_coq(t[1])
    if k == "pair":
        return "(" + ", ".join(to_coq(x) for x in t[1:]) + ")"
    raise ValueError("to_coq %r" % (t,))


def to_sexp(t):
    if t is None:
        return "None"
    if t is True:
        return "true"
    if t is False:
        return "false"
    if isinstance(t, list):
        return "(" + " ".join(to_sexp(x) for x in t) + ")"
    k = t[0]
    if k == "c":
        return t[1] if not t[2] else "(" + t[1] + " " + " ".join(to_sexp(x) for x in t[2]) + ")"
    if k == "r":
        return "(# " + " ".join(to_sexp(x) for x in t[2]) + ")"
    if k == "z":
        return ("-x%x" % -t[1]) if t[1] < 0 else ("x%x" % t[1])
    if k in ("n", "p", "nat"):
        return "x%x" % t[1]
    if k == "s":
        return "s:" + ",".join("%x" % ord(c) for c in t[1])
    if k == "some":
        return "(Some %s)" % to_sexp(t[1])
    if k == "pair":
        return "(" + " ".join(to_sexp(x) for x in t[1:]) + ")"
    raise ValueError("to_sexp %r" % (t,))


def float_ir(bits):
    bits = int(bits)
    sign = (bits >> 63) == 1
    exp = (bits >> 52) & 0x7FF
    man = bits & ((1 << 52) - 1)
    if exp == 0x7FF:
        return C("S754_nan") if man else C("S754_infinity", sign)
    if exp == 0:
        if man == 0:
            return C("S754_zero", sign)
        return C("S754_finite", sign, Pv(man), Zv(-1074))
    return C("S754_finite", sign, Pv(man | (1 << 52)), Zv(exp - 1075))


def scalar_ir(v):
    t = v[0]
    if t == "i":
        return C("SInt", Zv(v[1]))
    if t == "f":
        return C("SFloat", float_ir(v[1]))
    if t == "b":
        return C("SBool", bool(v[1]))
    if t == "s":
        return C("SStr", S(v[1]))
    if t == "dt":
        if len(v) < 10:
            raise ValueError("textual datetime has no model form; pass components")
        y, mo, d, h, mi, s, ns, off = v[2:10]
        return C("SDateTime", R("mkDT", R("mkDate", Zv(y), Zv(mo), Zv(d)), Zv(h), Zv(mi), Zv(s), Zv(ns), Zv(off)))
    if t == "d":
        return C("SDate", R("mkDate", Zv(v[2]), Zv(v[3]), Zv(v[4])))
    raise ValueError("scalar_ir: %r" % (v,))


def val_ir(v):
    """JSON value encoding (see harness/src/val.rs) -> IR of type value"""
    t = v[0]
    if t == "n":
        return C("VNil")
    if t == "a":
        return C("VArray", [val_ir(x) for x in v[1]])
    if t == "o":
        return C("VObject", obj_ir(v[1]))
    if t == "st":
        return C("VState", C(v[1]))
    return C("VScalar", scalar_ir(v))


def obj_ir(entries):
    return [P(S(k), val_ir(x)) for k, x in entries]


# ---------------------------------------------------------------- building
def coq_make(targets, timeout=900):
    """full .vo build of the given targets (and everything they depend on)"""
    rc, out, dt = sh("coq_makefile -f _CoqProject -o Makefile > /dev/null && make -j%d %s" % (NCPU, " ".join(targets)),
                     cwd=COQ, timeout=timeout)
    return rc == 0, out, dt


def coq_clean():
    sh("coq_makefile -f _CoqProject -o Makefile > /dev/null && make clean > /dev/null 2>&1; find . -name '*.vo' -o -name '*.glob' -o -name '*.aux' -o -name '*.vos' -o -name '*.vok' | xargs rm -f", cwd=COQ)


def grep_forbidden():
    bad = []
    for root, _, files in os.walk(COQ):
        for f in files:
            if f.endswith(".v"):
                p = os.path.join(root, f)
                txt = open(p, encoding="utf-8").read()
                txt = re.sub(r"\(\*.*?\*\)", "", txt, flags=re.S)   # comments may mention the words
                for m in FORBIDDEN.finditer(txt):
                    bad.append("%s: %s" % (os.path.relpath(p, COQ), m.group(0)))
                for m in re.finditer(r"^\s*(Variable|Hypothesis|Variables|Hypotheses)\b", txt, flags=re.M):
                    # only allowed inside a Section: crude but safe check — the file must open a Section before
                    before = txt[:m.start()]
                    if before.count("Section ") <= len(re.findall(r"^\s*End\s+\w+\.", before, flags=re.M)) - before.count("Module "):
                        bad.append("%s: %s outside a Section" % (os.path.relpath(p, COQ), m.group(1)))
    return bad


def check_props_file(prop):
    """re-run coqc on props/<prop>.v in this run; return (ok, theorems, assumptions, log)"""
    vf = os.path.join("props", prop + ".v")
    src = open(os.path.join(COQ, vf), encoding="utf-8").read()
    names = re.findall(r"^\s*Print Assumptions\s+([\w.]+)\s*\.", src, flags=re.M)
    stated = re.findall(r"^\s*(?:Theorem|Corollary)\s+(\w+)", src, flags=re.M)
    os.makedirs(os.path.join(CACHE, "props_check"), exist_ok=True)
    tmp_out = os.path.join(CACHE, "props_check", "%s.vo" % prop)
    rc, out, dt = sh(["coqc", "-Q", ".", "LV", "-o", tmp_out, vf], cwd=COQ, timeout=600)
    chunks = re.split(r"(?=^Closed under the global context|^Axioms:)", out, flags=re.M)
    results = [c.strip() for c in chunks if c.startswith("Closed under") or c.startswith("Axioms:")]
    problems = []
    if rc != 0:
        problems.append("coqc %s failed: %s" % (vf, out[-2000:]))
    missing = [t for t in stated if t not in names]
    if missing:
        problems.append("theorems without Print Assumptions: %s" % missing)
    if len(results) != len(names):
        problems.append("Print Assumptions: %d results for %d theorems" % (len(results), len(names)))
    assumptions = {}
    for n, r in zip(names, results):
        if r.startswith("Closed under"):
            assumptions[n] = "Closed under the global context"
        else:
            axs = re.findall(r"^\s*([\w.]+)\s*:", r, flags=re.M)
            assumptions[n] = "Axioms: " + ", ".join(axs)
            for a in axs:
                if a not in ALLOWED_AXIOMS:
                    problems.append("theorem %s depends on non-allow-listed axiom %s" % (n, a))
    try:
        os.remove(tmp_out)
    except OSError:
        pass
    return (not problems), names, assumptions, problems, dt


_harness_built = {}


def build_harness(profile="debug", timeout=1500):
    """(re)build the Rust harness against /repo's current working tree"""
    if profile in _harness_built:
        return _harness_built[profile]
    cmd = "cargo build --offline" + (" --release" if profile == "release" else "")
    env = dict(ENV, RUSTFLAGS="--cfg liquid_verif -Awarnings")
    rc, out, dt = sh(cmd, cwd=HARNESS, timeout=timeout, env=env)
    binp = os.path.join(CACHE, "target", profile, "lvh")
    r = (rc == 0 and os.path.exists(binp), binp, out, dt)
    _harness_built[profile] = r
    return r


def run_harness(binp, requests, shards=NCPU, timeout=600, tag="h"):
    """execute requests (dicts with unique 'id') on the implementation; returns id -> response"""
    os.makedirs(CACHE, exist_ok=True)
    shards = max(1, min(shards, len(requests)))
    files = []
    for i in range(shards):
        p = os.path.join(CACHE, "%s_req_%d.jsonl" % (tag, i))
        with open(p, "w", encoding="utf-8") as f:
            for r in requests[i::shards]:
                f.write(json.dumps(r, ensure_ascii=False) + "\n")
        files.append(p)

    def one(p):
        return sh([binp, p], timeout=timeout)
    out = {}
    problems = []
    with ThreadPoolExecutor(shards) as ex:
        for p, (rc, txt, dt) in zip(files, ex.map(one, files)):
            nreq = sum(1 for _ in open(p, encoding="utf-8"))
            got = 0
            for line in txt.split("\n"):      # not splitlines(): U+2028, U+0085, FF, VT inside a JSON string are not line ends
                if not line.startswith("{"):
                    continue
                try:
                    j = json.loads(line)
                except ValueError:
                    continue
                out[j["id"]] = j
                got += 1
            if rc != 0 or got != nreq:
                # the process died (abort/stack overflow/timeout): find the request it died on
                ids = [json.loads(l)["id"] for l in open(p, encoding="utf-8")]
                missing = [i for i in ids if i not in out]
                problems.append({"shard": p, "rc": rc, "first_unanswered": missing[0] if missing else None,
                                 "tail": txt[-500:]})
    for p in files:
        os.remove(p)
    return out, problems


_driver_built = None


def build_driver(timeout=900):
    """extract the model to OCaml (coqc extract/Extract.v), derive the readers, build the driver"""
    global _driver_built
    if _driver_built is not None:
        return _driver_built
    d = os.path.join(CACHE, "driver")
    os.makedirs(d, exist_ok=True)
    # every module the extraction imports must be compiled against the current (regenerated) sources
    ex = open(os.path.join(COQ, "extract", "Extract.v"), encoding="utf-8").read()
    m = re.search(r"From LV Require Import ([^.]*)\.", ex)
    mods = m.group(1).split() if m else []
    okm, outm, dtm = coq_make(["corr/%s.vo" % x for x in mods])
    if not okm:
        _driver_built = (False, os.path.join(d, "lvdriver"), outm, dtm)
        return _driver_built
    # a failed extraction must never leave an older driver behind
    cmd = ("rm -f model.ml model.mli readers.ml lvdriver Extract.vo && "
           "coqc -Q %s LV %s/extract/Extract.v -o %s/Extract.vo > extract.log 2>&1 && "
           "python3 %s/tools/genreaders.py model.mli readers.ml && cp %s/driver/*.ml . && "
           "ocamlfind ocamlopt -w -a -o lvdriver model.mli model.ml sexp.ml prim.ml readers.ml main.ml"
           % (COQ, COQ, d, VERIF, VERIF))
    rc, out, dt = sh(cmd, cwd=d, timeout=timeout)
    binp = os.path.join(d, "lvdriver")
    _driver_built = (rc == 0 and os.path.exists(binp), binp, out, dt)
    return _driver_built


def run_driver(binp, checker, sexps, tag="d", timeout=900):
    """evaluate the extracted checker on every case; returns (failing indices, errors)"""
    os.makedirs(CACHE, exist_ok=True)
    n = len(sexps)
    shards = max(1, min(NCPU, (n + 199) // 200))
    files = []
    for i in range(shards):
        p = os.path.join(CACHE, "%s_drv_%d.txt" % (tag, i))
        with open(p, "w", encoding="utf-8") as f:
            for sx in sexps[i::shards]:
                f.write(checker + "\t" + sx + "\n")
        files.append(p)

    def one(p):
        return sh("ulimit -s unlimited 2>/dev/null; exec %s %s" % (binp, p), timeout=timeout)
    failing, errors = [], []
    with ThreadPoolExecutor(shards) as ex:
        for i, (p, (rc, txt, dt)) in enumerate(zip(files, ex.map(one, files))):
            answers = [a for a in txt.split("\n") if a != ""]
            idxs = list(range(i, n, shards))
            if rc != 0 or len(answers) != len(idxs):
                errors.append({"shard": p, "rc": rc, "answers": len(answers), "expected": len(idxs), "tail": txt[-500:]})
                continue
            for gi, a in zip(idxs, answers):
                if a == "1":
                    continue
                if a == "0":
                    failing.append(gi)
                else:
                    errors.append({"case": gi, "error": a})
    for p in files:
        try:
            os.remove(p)
        except OSError:
            pass
    return sorted(failing), errors


def run_coq_cases(prop, header, case_terms, check_fn="check", shard_size=400, timeout=900):
    """evaluate `failing check cases` inside Coq (vm_compute) over shards of cases.v;
    returns (list of failing global indices, problems)"""
    d = os.path.join(CACHE, "cases_" + prop)
    shutil.rmtree(d, ignore_errors=True)
    os.makedirs(d)
    shards = [case_terms[i:i + shard_size] for i in range(0, len(case_terms), shard_size)]
    paths = []
    for i, sh_cases in enumerate(shards):
        p = os.path.join(d, "cases_%d.v" % i)
        with open(p, "w", encoding="utf-8") as f:
            f.write(header + "\n")
            f.write("Definition cases := [\n" + ";\n".join(sh_cases) + "\n].\n")
            f.write("Definition bad := Eval vm_compute in (failing %s cases).\n" % check_fn)
            f.write("Print bad.\n")
        paths.append(p)

    def one(p):
        return sh(["coqc", "-noglob", "-Q", COQ, "LV", "-o", p + "o", p], timeout=timeout)
    failing = []
    problems = []
    with ThreadPoolExecutor(NCPU) as ex:
        for i, (p, (rc, txt, dt)) in enumerate(zip(paths, ex.map(one, paths))):
            m = re.search(r"bad\s*=\s*(\[.*?\])\s*:\s*list N", txt, flags=re.S)
            if rc != 0 or not m:
                problems.append({"shard": p, "rc": rc, "tail": txt[-1500:]})
                continue
            body = m.group(1).replace("%N", "")
            idx = [int(x) for x in re.findall(r"\d+", body)]
            failing.extend(i * shard_size + j for j in idx)
    if not problems:
        shutil.rmtree(d, ignore_errors=True)
    return failing, problems


def coq_eval(header, term, timeout=300):
    """evaluate one term with vm_compute and return Coq's printed answer (for replays)"""
    os.makedirs(CACHE, exist_ok=True)
    p = os.path.join(CACHE, "eval_%d.v" % os.getpid())
    with open(p, "w", encoding="utf-8") as f:
        f.write(header + "\nEval vm_compute in (%s).\n" % term)
    rc, txt, dt = sh(["coqc", "-noglob", "-Q", COQ, "LV", "-o", p + "o", p], timeout=timeout)
    for q in (p, p + "o"):
        try:
            os.remove(q)
        except OSError:
            pass
    return txt.strip()


# ---------------------------------------------------------------- known findings
def load_known_findings():
    known, fixed = [], []
    p = os.path.join(VERIF, "known_findings.txt")
    if os.path.exists(p):
        for line in open(p, encoding="utf-8"):
            line = line.strip()
            if not line or line.startswith("#"):
                continue
            if line.startswith("fixed:"):
                fixed.append(line)
            elif line.startswith("known:"):
                m = re.match(r"known:\s*property=(\w+)\s+key=(\S+)\s+(.*)", line)
                if m:
                    known.append({"property": m.group(1), "key": m.group(2), "what": m.group(3)})
    return known, fixed


# ---------------------------------------------------------------- verdict & evidence
CURRENT = []      # the Run objects of this process (lvcheck's guard finishes the last one if a check raises)


class Run:
    def __init__(self, prop, tier, seed):
        self.prop, self.tier, self.seed = prop, tier, seed
        CURRENT.append(self)
        self.t0 = time.time()
        self.obligations = 0
        self.discharged = 0
        self.checker_cmds = []
        self.trusted = []
        self.assumptions = []
        self.coverage = {}
        self.violations = []      # dicts: {what, input, observed, expected, key?}
        self.broken = []          # broken obligations (theorem / generation / correspondence) without failing input
        self.notes = []

    def obligation(self, ok, name, detail=""):
        self.obligations += 1
        if ok:
            self.discharged += 1
        else:
            self.broken.append({"obligation": name, "detail": detail[-3000:] if isinstance(detail, str) else detail})

    def finish(self):
        known, fixed = load_known_findings()
        os.makedirs(REPLAYS, exist_ok=True)
        lines = []
        real = []
        for v in self.violations:
            k = v.get("key")
            hit = [e for e in known if e["property"] == self.prop and k and e["key"] == k]
            if hit:
                continue
            real.append(v)
        for e in known:
            if e["property"] == self.prop:
                lines.append("KNOWN-FINDING: property=%s %s" % (self.prop, e["what"]))
        exit_code = 0
        if real:
            v = real[0]
            h = hashlib.sha1(json.dumps(v, sort_keys=True, default=str).encode()).hexdigest()[:12]
            path = os.path.join(REPLAYS, "%s-%s.json" % (self.prop, h))
            json.dump({"property": self.prop, "violation": v, "all": real[:20], "broken_obligations": self.broken[:10],
                       "seed": self.seed, "tier": self.tier}, open(path, "w"), indent=1, default=str)
            lines.append("VIOLATION property=%s replay=%s" % (self.prop, path))
            exit_code = 1
        elif self.broken:
            h = hashlib.sha1(json.dumps(self.broken, sort_keys=True, default=str).encode()).hexdigest()[:12]
            path = os.path.join(REPLAYS, "%s-%s.json" % (self.prop, h))
            json.dump({"property": self.prop, "no_failing_input_found": True,
                       "broken_obligations": self.broken[:20], "seed": self.seed, "tier": self.tier},
                      open(path, "w"), indent=1, default=str)
            lines.append("VIOLATION property=%s replay=%s no-failing-input-found" % (self.prop, path))
            exit_code = 1
        cov = dict(self.coverage)
        cov.update({"obligations": self.obligations, "discharged": self.discharged,
                    "checker_cmd": " && ".join(self.checker_cmds) or "make",
                    "trusted_base": self.trusted})
        ev = {"property_id": self.prop, "tier": self.tier, "seed": self.seed, "level": "proof",
              "coverage": cov, "assumptions": self.assumptions, "wall_s": round(time.time() - self.t0, 2),
              "violations": len(real) + (1 if (self.broken and not real) else 0), "notes": self.notes}
        os.makedirs(EVID, exist_ok=True)
        json.dump(ev, open(os.path.join(EVID, self.prop + ".json"), "w"), indent=1, default=str)
        for l in lines:
            print(l)
        print("%s %s: obligations %d/%d, evaluations %s, violations %d, %.1fs" % (
            self.prop, self.tier, self.discharged, self.obligations, cov.get("evaluations"), ev["violations"], ev["wall_s"]))
        return exit_code


COMMON_TRUSTED = [
    "Coq 8.16.1 kernel (coqc, full .vo builds; vm_compute for finite sweeps and for evaluating the model on cases); no native_compute",
    "no axioms: every theorem of props/ prints 'Closed under the global context'",
    "correspondence check: tools/lv.py + tools/props/*.py (case generation, Coq term printing, diff), harness/ (Rust runner over /repo's working tree)",
    "modelled, not verified: the hand-written Gallina transcription of the Rust code (tied to /repo only by the correspondence run of this check)",
]


def standard_proof_phase(run, prop, targets, thorough=False):
    """(T): build, re-check property file, assumptions, forbidden constructs. Returns ok."""
    # (G) regenerate the generated parts of the model from /repo's current sources
    rc, tout, dt = sh(["python3", os.path.join(VERIF, "tools", "translate.py")], timeout=300)
    run.checker_cmds.append("python3 tools/translate.py (regenerate coq/gen/*.v from /repo)")
    run.obligation(rc == 0, "regeneration of coq/gen/*.v from /repo (translator)", tout)
    if thorough:
        coq_clean()
    ok, out, dt = coq_make(targets)
    run.checker_cmds.append("make -C coq " + " ".join(targets))
    run.obligation(ok, "coq build of %s" % " ".join(targets), out)
    bad = grep_forbidden()
    run.obligation(not bad, "no Admitted/admit/Axiom/Parameter/... in the development", "; ".join(bad))
    if not ok:
        return False
    okp, names, assumptions, problems, dt = check_props_file(prop)
    run.checker_cmds.append("coqc -Q . LV props/%s.v" % prop)
    for n in names:
        a = assumptions.get(n, "?")
        run.obligation(a.startswith("Closed") or all(x.strip() in ALLOWED_AXIOMS for x in a[len("Axioms: "):].split(",")),
                       "theorem %s.%s" % (prop, n), a)
    if problems:
        run.obligation(False, "props/%s.v re-check" % prop, "; ".join(problems))
    run.coverage["theorems"] = {n: assumptions.get(n) for n in names}
    if thorough:
        rc, out, dt = sh("coqchk -silent -o -Q . LV LV.props.%s" % prop, cwd=COQ, timeout=1500)
        run.checker_cmds.append("coqchk -silent -o -Q . LV LV.props.%s" % prop)
        axl = re.search(r"Axioms:\s*(.*)", out, flags=re.S)
        run.obligation(rc == 0 and axl is not None and "<none>" in axl.group(1), "coqchk of props/%s.vo" % prop, out[-1500:])
        run.coverage["coqchk"] = out[-600:]
    return okp
