(* Serde.v — the serde boundary of the value model (crates/core/src/model/value/ser.rs,
   scalar/ser.rs, model/ser.rs, object/ser.rs and the derived (de)serializers of Value / Scalar):
   Rust data -> Liquid value (ValueSerializer), Liquid value -> serde content (Serialize for Value,
   ValueDeserializer::deserialize_any), serde content -> Liquid value (the untagged Deserialize of
   Value and Scalar), and JSON in between.  Executable definitions only; proofs in SerdeProofs.v. *)
From Coq Require Import SpecFloat.
From LV Require Export Value Strftime.

(* the serde data model, as far as these (de)serializers distinguish it *)
Inductive sd :=
| DBool (b : bool)
| DI64 (z : Z) | DU64 (z : Z) | DWide (z : Z)     (* i8..i64 | u8..u64 | i128/u128 *)
| DF64 (f : spec_float) | DStr (s : str)
| DUnit | DNone | DSome (x : sd)
| DSeq (l : list sd) | DMap (l : list (sd * sd)) | DStruct (l : list (str * sd))
| DUnitVariant (name : str) | DNewtypeVariant (name : str) (x : sd)
| DTupleVariant (name : str) (l : list sd) | DStructVariant (name : str) (l : list (str * sd)).

(* MapKeySerializer: keys must be strings; integers are printed, chars and unit variants pass *)
Definition key_of (k : sd) : res str :=
  match k with
  | DStr s => Ok s
  | DI64 z | DU64 z => Ok (show_Z z)
  | DUnitVariant n => Ok n
  | _ => Err EOther
  end.

(* traversals shared by the (de)serializers *)
Definition mapM {A B} (f : A -> res B) : list A -> res (list B) :=
  fix go (l : list A) : res (list B) :=
    match l with [] => Ok [] | a :: t => do v <- f a; do r <- go t; Ok (v :: r) end.
(* Object::insert entry by entry (a later entry with the same key replaces the earlier one) *)
Definition insert_all (r : list (str * value)) (acc : obj) : obj := fold_left (fun a kv => upsert (fst kv) (snd kv) a) r acc.
Definition mapM_kv {K A} (kf : K -> res str) (f : A -> res value) : list (K * A) -> res (list (str * value)) :=
  fix go (l : list (K * A)) : res (list (str * value)) :=
    match l with [] => Ok [] | (k, a) :: t => do ks <- kf k; do v <- f a; do r <- go t; Ok ((ks, v) :: r) end.
Definition build_fields {A} (f : A -> res value) (l : list (str * A)) (acc : obj) : res obj :=
  do r <- mapM_kv (fun k => Ok k) f l; Ok (insert_all r acc).
Definition build_entries {A} (kf : A -> res str) (f : A -> res value) (l : list (A * A)) (acc : obj) : res obj :=
  do r <- mapM_kv kf f l; Ok (insert_all r acc).

(* ValueSerializer / ScalarSerializer: to_value(&T) *)
Fixpoint to_value_sd (x : sd) : res value :=
  match x with
  | DBool b => Ok (VScalar (SBool b))
  | DI64 z => Ok (VScalar (SInt z))
  | DU64 z => if in_i64 z then Ok (VScalar (SInt z)) else Err EOther        (* "Cannot fit number" *)
  | DWide _ => Err EOther                                                   (* "i128 is not supported" *)
  | DF64 f => Ok (VScalar (SFloat f))
  | DStr s => Ok (VScalar (SStr s))
  | DUnit | DNone => Ok VNil
  | DSome a => to_value_sd a
  | DSeq l => do r <- mapM to_value_sd l; Ok (VArray r)
  | DMap l => do o <- build_entries key_of to_value_sd l []; Ok (VObject o)
  | DStruct l => do o <- build_fields to_value_sd l []; Ok (VObject o)
  | DUnitVariant n => Ok (VScalar (SStr n))
  | DNewtypeVariant n a => do v <- to_value_sd a; Ok (VObject [(n, v)])
  | DTupleVariant n l => do r <- mapM to_value_sd l; Ok (VObject [(n, VArray r)])
  | DStructVariant n l => do o <- build_fields to_value_sd l []; Ok (VObject [(n, VObject o)])
  end.

Definition state_name (s : state) : str :=
  match s with
  | Truthy => [84;114;117;116;104;121]%N | DefaultValue => [68;101;102;97;117;108;116;86;97;108;117;101]%N
  | Empty => [69;109;112;116;121]%N | Blank => [66;108;97;110;107]%N
  end.
(* #[derive(Serialize)] of Value / Scalar: dates are written as their printed text *)
Fixpoint ser_value (v : value) : sd :=
  match v with
  | VScalar (SInt z) => DI64 z
  | VScalar (SFloat f) => DF64 f
  | VScalar (SBool b) => DBool b
  | VScalar (SDateTime t) => DStr (show_datetime t)
  | VScalar (SDate d) => DStr (show_date d)
  | VScalar (SStr s) => DStr s
  | VArray l => DSeq (map ser_value l)
  | VObject kvs => DMap (map (fun kv => (DStr (fst kv), ser_value (snd kv))) kvs)
  | VState s => DUnitVariant (state_name s)
  | VNil => DUnit
  end.
(* ValueDeserializer::deserialize_any (after the repair): what a self-describing visitor is shown *)
Fixpoint de_any (v : value) : sd :=
  match v with
  | VScalar (SStr s) => DStr s
  | VScalar (SInt z) => DI64 z
  | VScalar (SFloat f) => DF64 f
  | VScalar (SBool b) => DBool b
  | VScalar (SDateTime t) => DStr (show_datetime t)
  | VScalar (SDate d) => DStr (show_date d)
  | VArray l => DSeq (map de_any l)
  | VObject kvs => DMap (map (fun kv => (DStr (fst kv), de_any (snd kv))) kvs)
  | VState _ | VNil => DUnit
  end.

(* the date form "[year]-[month]-[day]" *)
Definition parse_date_default (l : str) : option date :=
  match take_num 4 l with None => None | Some (y, l) =>
  match expect_c 45%N l with None => None | Some l =>
  match take_num 2 l with None => None | Some (mo, l) =>
  match expect_c 45%N l with None => None | Some l =>
  match take_num 2 l with None => None | Some (d, l) =>
  match l with [] => let dt := mkDate y mo d in if valid_date dt then Some dt else None | _ => None end
  end end end end end.

(* #[derive(Deserialize)] #[serde(untagged)] of Value over buffered content: the first variant that
   accepts the content wins — Scalar (Integer, Float, Bool, DateTime, Date, Str), Array, Object, State, Nil *)
Definition content_key (k : sd) : res str := match k with DStr s => Ok s | _ => Err EOther end.
Fixpoint value_of_content (c : sd) : res value :=
  match c with
  | DI64 z => Ok (VScalar (SInt z))
  | DU64 z => Ok (VScalar (if in_i64 z then SInt z else SFloat (f_of_Z z)))     (* too wide for i64: carried as a float *)
  | DF64 f => Ok (VScalar (SFloat f))
  | DBool b => Ok (VScalar (SBool b))
  | DStr s =>
      match parse_default s with
      | Some t => Ok (VScalar (SDateTime t))
      | None => match parse_date_default s with
                | Some d => Ok (VScalar (SDate d))
                | None => Ok (VScalar (SStr s))
                end
      end
  | DSeq l => do r <- mapM value_of_content l; Ok (VArray r)
  | DMap l => do o <- build_entries content_key value_of_content l []; Ok (VObject o)
  | DUnit | DNone => Ok VNil
  | DSome a => value_of_content a
  | _ => Err EOther
  end.

(* the three conversions of a Liquid value through serde *)
Definition serde_to_value (v : value) : res value := to_value_sd (ser_value v).         (* to_value(&v) *)
Definition serde_from_value (v : value) : res value := value_of_content (de_any v).    (* from_value::<Value>(&v) *)
Definition serde_json_roundtrip (v : value) : res value := value_of_content (ser_value v).   (* finite floats only *)
