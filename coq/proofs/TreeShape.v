(* TreeShape.v — the children analysis on liquid's grammar (coq/gen/Grammar.v, regenerated on every run):
   the shape of the pair tree that crates/core/src/parser/parser.rs walks with
   `into_inner().next().expect(..)`, `unreachable!()` and `panic!("Expected ..")`. *)
From LV Require Import Base Peg PegTree Grammar PegProofs TreeProofs.
From Coq Require Import Lia.

Definition K0 : nat := 60.
Notation wf := (wf_tree liquid_grammar K0).
Notation wff := (wf_forest liquid_grammar K0).

Lemma liquid_eoi_free : length liquid_grammar <= eoi_id.
Proof. vm_compute. repeat constructor. Qed.

(* every pair tree pest can build for this grammar, from any start rule and text, is well-shaped throughout *)
Theorem parse_tree_wf f start s rest p F :
  parse_tree liquid_grammar liquid_ws f start s = Some (Some (rest, p, F)) -> wff F.
Proof. unfold parse_tree. apply wf_sound. exact liquid_eoi_free. Qed.
(* and its pre-order flattening is the pair stream of Peg.parse *)
Theorem parse_tree_flat f start s :
  parse liquid_grammar liquid_ws f start s = flat_res (parse_tree liquid_grammar liquid_ws f start s).
Proof. unfold parse, parse_tree. apply ev_flat. Qed.

(* sub-pairs *)
Inductive within : ttree -> ttree -> Prop :=
| w_here t : within t t
| w_below t k cs c : In c cs -> within t c -> within t (TNode k cs).
Lemma wff_in F c : wff F -> In c F -> wf c.
Proof. induction F as [|x F IH]; [intros _ []|]. cbn [wf_forest]. intros [H1 H2] [<-|H]; auto. Qed.
Lemma wf_within t u : within t u -> wf u -> wf t.
Proof.
  induction 1 as [|t k cs c Hin _ IH]; [auto|]. intro H. apply wf_tree_unfold in H. destruct H as [_ H].
  apply IH. eapply wff_in; eassumption.
Qed.

Lemma mem_In x l : mem x l = true -> In x l.
Proof. induction l as [|y l IH]; [discriminate|]. rewrite mem_cons. intro H. apply orb_true_iff in H. destruct H as [H|H]; [left; symmetry; apply Nat.eqb_eq, H|right; auto]. Qed.
Lemma sat_pos_nil_forall r l : sat_pos [] r l -> Forall (fun x => In x r) l.
Proof. induction l as [|x l IH]; [constructor|]. cbn [sat_pos]. intros [H1 H2]. constructor; [apply mem_In, H1|auto]. Qed.

(* the shape of the children of a pair, by rule: what the Rust code expects at each site *)
Definition literal_rules := [r_NilLiteral; r_EmptyLiteral; r_BlankLiteral; r_StringLiteral; r_FloatLiteral; r_IntegerLiteral; r_BooleanLiteral].
Definition tag_token_rules := [r_Range; r_FilterChain; r_Equals; r_NotEquals; r_LesserThanGreaterThan; r_GreaterThanEquals; r_LesserThanEquals;
                               r_GreaterThan; r_LesserThan; r_Assign; r_Comma; r_Colon].
Definition element_rules := [r_Expression; r_Tag; r_Raw; r_InvalidLiquid; eoi_id].
Definition leaf_rules := literal_rules ++ [r_Identifier; r_Raw; r_InvalidLiquid; eoi_id; r_Equals; r_NotEquals; r_LesserThanGreaterThan; r_GreaterThanEquals; r_LesserThanEquals;
                               r_GreaterThan; r_LesserThan; r_Assign; r_Comma; r_Colon].
Definition children_spec (n : nat) (cs : list nat) : Prop :=
  (n = r_Tag -> cs = [r_TagInner]) /\
  (n = r_TagInner -> exists more, cs = r_Identifier :: more /\ Forall (fun x => In x tag_token_rules) more) /\
  (n = r_Expression -> cs = [r_ExpressionInner]) /\
  (n = r_ExpressionInner -> cs = [r_FilterChain]) /\
  (n = r_FilterChain -> exists more, cs = r_Value :: more /\ Forall (fun x => x = r_Filter) more) /\
  (n = r_Filter -> exists more, cs = r_Identifier :: more /\ Forall (fun x => x = r_PositionalFilterArgument \/ x = r_KeywordFilterArgument) more) /\
  (n = r_PositionalFilterArgument -> cs = [r_Value]) /\
  (n = r_KeywordFilterArgument -> cs = [r_Identifier; r_Value]) /\
  (n = r_Value -> cs = [r_Literal] \/ cs = [r_Variable]) /\
  (n = r_Literal -> exists k, cs = [k] /\ In k literal_rules) /\
  (n = r_Variable -> exists more, cs = r_Identifier :: more /\ Forall (fun x => x = r_Identifier \/ x = r_Value) more) /\
  (n = r_Range -> cs = [r_Value; r_Value]) /\
  (n = r_LaxLiquidFile -> Forall (fun x => In x element_rules) cs) /\
  (n = r_LiquidFile -> Forall (fun x => In x [r_Expression; r_Tag; r_Raw; eoi_id]) cs) /\
  (In n leaf_rules -> cs = []).

Lemma sat_zero r l : sat (mkA 0 (Some 0) [] r) l -> l = [].
Proof. intros (_ & H & _). cbn in H. destruct l; [reflexivity|cbn in H; lia]. Qed.
Lemma sat_one p ps r l : sat (mkA 1 (Some 1) (p :: ps) r) l -> exists x, l = [x] /\ In x p.
Proof.
  intros (H1 & H2 & H3). cbn in H1, H2, H3. destruct l as [|x [|y l]]; cbn in H1, H2; try lia.
  exists x. split; [reflexivity|]. cbn in H3. apply mem_In, H3.
Qed.
Lemma sat_two p q ps r l : sat (mkA 2 (Some 2) (p :: q :: ps) r) l -> exists x y, l = [x; y] /\ In x p /\ In y q.
Proof.
  intros (H1 & H2 & H3). cbn in H1, H2, H3. destruct l as [|x [|y [|z l]]]; cbn in H1, H2; try lia.
  exists x, y. cbn in H3. destruct H3 as (A & B & _). repeat split; auto using mem_In.
Qed.
Lemma sat_head p ps r l : sat (mkA 1 None (p :: ps) r) l -> exists x more, l = x :: more /\ In x p /\ sat_pos ps r more.
Proof.
  intros (H1 & _ & H3). cbn in H1, H3. destruct l as [|x l]; cbn in H1; try lia.
  exists x, l. cbn in H3. destruct H3 as (A & B). repeat split; auto using mem_In.
Qed.
Lemma sat_pos_forall_in p r U l : (forall q, In q p -> incl q U) -> incl r U -> sat_pos p r l -> Forall (fun x => In x U) l.
Proof.
  revert p. induction l as [|x l IH]; intros p Hp Hr H; [constructor|]. cbn [sat_pos] in H.
  destruct p as [|q p']; destruct H as [H1 H2]; constructor.
  - apply Hr, mem_In, H1.
  - apply (IH []); [intros q []|exact Hr|exact H2].
  - apply (Hp q (or_introl eq_refl)), mem_In, H1.
  - apply (IH p'); [|exact Hr|exact H2]. intros q' Hq'. apply Hp. right. exact Hq'.
Qed.
Lemma sat_any lo0 r l : sat (mkA lo0 None [] r) l -> Forall (fun x => In x r) l.
Proof. intros (_ & _ & H). cbn in H. apply sat_pos_nil_forall, H. Qed.

Definition nonatomic (m : atom) : Prop := m = NonAtomic \/ m = Compound.
Lemma nonatomic_of m : m <> Atomic -> nonatomic m. Proof. destruct m; [left|congruence|right]; reflexivity. Qed.
Ltac modes Hm := destruct Hm as [-> | ->].
Ltac tab := vm_compute; reflexivity.
Definition ca := child_abs liquid_grammar K0.

Lemma tab_Tag m : nonatomic m -> ca m r_Tag = Some (mkA 1 (Some 1) [[r_TagInner]] []). Proof. intro H; modes H; tab. Qed.
Lemma tab_TagInner m : nonatomic m -> ca m r_TagInner = Some (mkA 1 None [[r_Identifier]] [r_Range; r_FilterChain; r_Equals; r_NotEquals; r_LesserThanGreaterThan; r_GreaterThanEquals; r_LesserThanEquals; r_GreaterThan; r_LesserThan; r_Assign; r_Comma; r_Colon]).
Proof. intro H; modes H; tab. Qed.
Lemma tab_Expression m : nonatomic m -> ca m r_Expression = Some (mkA 1 (Some 1) [[r_ExpressionInner]] []). Proof. intro H; modes H; tab. Qed.
Lemma tab_ExpressionInner m : nonatomic m -> ca m r_ExpressionInner = Some (mkA 1 (Some 1) [[r_FilterChain]] []). Proof. intro H; modes H; tab. Qed.
Lemma tab_FilterChain m : nonatomic m -> ca m r_FilterChain = Some (mkA 1 None [[r_Value]] [r_Filter]). Proof. intro H; modes H; tab. Qed.
Lemma tab_Filter m : nonatomic m -> ca m r_Filter = Some (mkA 1 None [[r_Identifier]; [r_KeywordFilterArgument; r_PositionalFilterArgument]] [r_KeywordFilterArgument; r_PositionalFilterArgument]).
Proof. intro H; modes H; tab. Qed.
Lemma tab_Positional m : nonatomic m -> ca m r_PositionalFilterArgument = Some (mkA 1 (Some 1) [[r_Value]] []). Proof. intro H; modes H; tab. Qed.
Lemma tab_Keyword m : nonatomic m -> ca m r_KeywordFilterArgument = Some (mkA 2 (Some 2) [[r_Identifier]; [r_Value]] []). Proof. intro H; modes H; tab. Qed.
Lemma tab_Value m : nonatomic m -> ca m r_Value = Some (mkA 1 (Some 1) [[r_Literal; r_Variable]] []). Proof. intro H; modes H; tab. Qed.
Lemma tab_Literal m : nonatomic m -> ca m r_Literal = Some (mkA 1 (Some 1) [[r_NilLiteral; r_EmptyLiteral; r_BlankLiteral; r_StringLiteral; r_FloatLiteral; r_IntegerLiteral; r_BooleanLiteral]] []).
Proof. intro H; modes H; tab. Qed.
Lemma tab_Variable m : nonatomic m -> ca m r_Variable = Some (mkA 1 None [[r_Identifier]] [r_Identifier; r_Value]). Proof. intro H; modes H; tab. Qed.
Lemma tab_Range m : nonatomic m -> ca m r_Range = Some (mkA 2 (Some 2) [[r_Value]; [r_Value]] []). Proof. intro H; modes H; tab. Qed.
Lemma tab_Lax m : nonatomic m -> ca m r_LaxLiquidFile = Some (mkA 1 None [] [r_Expression; r_Tag; r_Raw; r_InvalidLiquid; eoi_id]). Proof. intro H; modes H; tab. Qed.
Lemma tab_Strict m : nonatomic m -> ca m r_LiquidFile = Some (mkA 1 None [] [r_Expression; r_Tag; r_Raw; eoi_id]). Proof. intro H; modes H; tab. Qed.
Lemma tab_leaf m n : nonatomic m -> In n leaf_rules -> ca m n = Some (mkA 0 (Some 0) [] []).
Proof. intros H Hn. unfold leaf_rules, literal_rules in Hn. cbn [app] in Hn. modes H; repeat (destruct Hn as [<-|Hn]; [tab|]); destruct Hn. Qed.

Lemma local_children k cs : local_ok liquid_grammar K0 k cs -> children_spec (t_rule k) (roots cs).
Proof.
  intros [m [Hm H]]. apply nonatomic_of in Hm. fold ca in H. generalize dependent (roots cs). intros l H.
  unfold children_spec. repeat split; intro E; try rewrite E in H.
  - rewrite (tab_Tag m Hm) in H. destruct (sat_one _ _ _ _ H) as (x & -> & [<-|[]]). reflexivity.
  - rewrite (tab_TagInner m Hm) in H. destruct (sat_head _ _ _ _ H) as (x & more & -> & [<-|[]] & Hp).
    exists more. split; [reflexivity|]. apply sat_pos_nil_forall in Hp. exact Hp.
  - rewrite (tab_Expression m Hm) in H. destruct (sat_one _ _ _ _ H) as (x & -> & [<-|[]]). reflexivity.
  - rewrite (tab_ExpressionInner m Hm) in H. destruct (sat_one _ _ _ _ H) as (x & -> & [<-|[]]). reflexivity.
  - rewrite (tab_FilterChain m Hm) in H. destruct (sat_head _ _ _ _ H) as (x & more & -> & [<-|[]] & Hp).
    exists more. split; [reflexivity|]. apply sat_pos_nil_forall in Hp. eapply Forall_impl; [|exact Hp]. intros a [<-|[]]. reflexivity.
  - rewrite (tab_Filter m Hm) in H. destruct (sat_head _ _ _ _ H) as (x & more & -> & [<-|[]] & Hp).
    exists more. split; [reflexivity|].
    apply (sat_pos_forall_in _ _ [r_KeywordFilterArgument; r_PositionalFilterArgument]) in Hp.
    + eapply Forall_impl; [|exact Hp]. intros a [<-|[<-|[]]]; auto.
    + intros q [<-|[]]. apply incl_refl.
    + apply incl_refl.
  - rewrite (tab_Positional m Hm) in H. destruct (sat_one _ _ _ _ H) as (x & -> & [<-|[]]). reflexivity.
  - rewrite (tab_Keyword m Hm) in H. destruct (sat_two _ _ _ _ _ H) as (x & y & -> & [<-|[]] & [<-|[]]). reflexivity.
  - rewrite (tab_Value m Hm) in H. destruct (sat_one _ _ _ _ H) as (x & -> & [<-|[<-|[]]]); auto.
  - rewrite (tab_Literal m Hm) in H. destruct (sat_one _ _ _ _ H) as (x & -> & Hx). exists x. split; [reflexivity|exact Hx].
  - rewrite (tab_Variable m Hm) in H. destruct (sat_head _ _ _ _ H) as (x & more & -> & [<-|[]] & Hp).
    exists more. split; [reflexivity|]. apply sat_pos_nil_forall in Hp. eapply Forall_impl; [|exact Hp]. intros a [<-|[<-|[]]]; auto.
  - rewrite (tab_Range m Hm) in H. destruct (sat_two _ _ _ _ _ H) as (x & y & -> & [<-|[]] & [<-|[]]). reflexivity.
  - rewrite (tab_Lax m Hm) in H. apply sat_any in H. exact H.
  - rewrite (tab_Strict m Hm) in H. apply sat_any in H. exact H.
  - rewrite (tab_leaf m _ Hm E) in H. apply sat_zero in H. exact H.
Qed.

(* every pair anywhere in a parse tree of this grammar has the children parser.rs expects *)
Theorem children_as_expected f start s rest p F t k cs :
  parse_tree liquid_grammar liquid_ws f start s = Some (Some (rest, p, F)) ->
  In t F -> within (TNode k cs) t -> children_spec (t_rule k) (roots cs).
Proof.
  intros HP Hin Hw. apply local_children. pose proof (parse_tree_wf _ _ _ _ _ _ HP) as W.
  pose proof (wf_within _ _ Hw (wff_in _ _ W Hin)) as Wt. apply wf_tree_unfold in Wt. exact (proj1 Wt).
Qed.

(* the top of the tree: one LaxLiquidFile pair over the whole text whose children are elements
   (Expression / Tag / Raw / InvalidLiquid) followed by exactly one EOI pair — the stream
   model/BlockParse.v's theorem quantifies over *)
Theorem lax_tree_shape f s rest p F :
  parse_tree liquid_grammar liquid_ws f r_LaxLiquidFile s = Some (Some (rest, p, F)) ->
  exists body, F = [TNode (mkTok r_LaxLiquidFile 0 p) (body ++ [TNode (mkTok eoi_id p p) []])] /\
               Forall (fun t => In (root t) [r_Expression; r_Tag; r_Raw; r_InvalidLiquid]) body.
Proof.
  unfold parse_tree. intro H. destruct f as [|f1]; [discriminate|]. cbn [evf] in H.
  assert (R : nth_error liquid_grammar r_LaxLiquidFile =
              Some (mkRule MCompound (PSeq PSoi (PSeq (PStar (PAlt (PRef r_Element) (PRef r_InvalidLiquid))) PEoi)))) by reflexivity.
  rewrite R in H. cbn [r_mod r_body mode_of is_silent negb andb atom_eqb] in H.
  match type of H with match ?x with _ => _ end = _ => destruct x as [[[[s1 p1] ts]|]|] eqn:Hb; try discriminate end.
  inversion H; subst. clear H.
  destruct f1 as [|f2]; [discriminate|]. cbn [evf] in Hb.
  destruct f2 as [|f3]; [discriminate|]. cbn [evf Nat.eqb] in Hb.
  destruct (evf liquid_grammar liquid_ws f3 Compound false (PStar (PAlt (PRef r_Element) (PRef r_InvalidLiquid))) s 0) as [[[[s2 p2] t2]|]|] eqn:Hstar; try discriminate.
  destruct f3 as [|f4]; [discriminate|]. cbn [evf orb atom_eqb] in Hb.
  destruct s2 as [|c s2]; [|discriminate]. cbn [app] in Hb. inversion Hb; subst. clear Hb.
  exists t2. split; [reflexivity|].
  assert (HA : abs liquid_grammar 10 Compound (PStar (PAlt (PRef r_Element) (PRef r_InvalidLiquid))) =
               Some (mkA 0 None [] [r_Expression; r_Tag; r_Raw; r_InvalidLiquid])) by (vm_compute; reflexivity).
  pose proof (abs_sound _ _ _ _ _ _ _ _ _ _ Hstar _ _ HA) as S. apply sat_any in S.
  unfold roots in S. apply Forall_map in S. exact S.
Qed.

(* ---- the two layers composed ---- *)
From LV Require Import PegTotal BlockParse BlockProofs.
Definition eoi_node (t : ttree) : bool := Nat.eqb (root t) eoi_id.
(* any reading of the elements as BlockParse elements: which tag keyword, which verdict of its argument
   parser — arbitrary, as long as the EOI pair, and only it, is read as EEOI *)
Definition faithful (alpha : ttree -> elem) : Prop := forall t, alpha t = EEOI <-> eoi_node t = true.

Theorem parse_total_composed s : exists f, forall f', f <= f' ->
  exists p body,
    parse_tree liquid_grammar liquid_ws f' r_LaxLiquidFile s =
      Some (Some ([], p, [TNode (mkTok r_LaxLiquidFile 0 p) (body ++ [TNode (mkTok eoi_id p p) []])])) /\
    Forall (fun t => In (root t) [r_Expression; r_Tag; r_Raw; r_InvalidLiquid]) body /\
    forall alpha, faithful alpha ->
      parse_elements (map alpha (body ++ [TNode (mkTok eoi_id p p) []])) = POk \/
      parse_elements (map alpha (body ++ [TNode (mkTok eoi_id p p) []])) = PErr.
Proof.
  destruct (lax_parse_total s) as [f Hf]. exists f. intros f' Hle. destruct (Hf f' Hle) as (p & ts & HP).
  rewrite parse_tree_flat in HP.
  destruct (parse_tree liquid_grammar liquid_ws f' r_LaxLiquidFile s) as [[[[rest p'] F]|]|] eqn:HT; try discriminate.
  cbn [flat_res] in HP. inversion HP; subst. clear HP.
  destruct (lax_tree_shape _ _ _ _ _ HT) as (body & -> & Hbody).
  exists p, body. split; [reflexivity|]. split; [exact Hbody|].
  intros alpha Ha. rewrite map_app. cbn [map].
  replace (alpha (TNode (mkTok eoi_id p p) [])) with EEOI by (symmetry; apply Ha; reflexivity).
  apply blocks_total. apply Forall_map. eapply Forall_impl; [|exact Hbody].
  intros t Ht Hc. apply Ha in Hc. unfold eoi_node in Hc. apply Nat.eqb_eq in Hc. cbv beta in Ht. rewrite Hc in Ht.
  cbn in Ht. repeat (destruct Ht as [Ht|Ht]; [discriminate Ht|]). destruct Ht.
Qed.
